//! Copies the subject's src/simd/runtime.rs, replacing exactly one thing: the import
//! `use std::sync::atomic::` becomes `use crate::facade::atomic::` (an AtomicU8 with a const `new`
//! that forwards load/store to a loom atomic). Anything unexpected fails the build loudly.

use std::env;
use std::fs;
use std::path::PathBuf;

fn main() {
    println!("cargo:rerun-if-env-changed=HTTPARSE_REPO");
    println!("cargo::rustc-check-cfg=cfg(httparse_verif)");
    let repo = env::var("HTTPARSE_REPO").unwrap_or_else(|_| "/repo".to_string());
    let src = PathBuf::from(&repo).join("src/simd/runtime.rs");
    println!("cargo:rerun-if-changed={}", src.display());
    let text = fs::read_to_string(&src).unwrap_or_else(|e| panic!("cannot read {}: {}", src.display(), e));
    let import = "use std::sync::atomic::";
    assert_eq!(text.matches(import).count(), 1, "expected exactly one `{}` in {}", import, src.display());
    assert!(!text.contains("core::sync::atomic"), "runtime.rs reaches atomics through another path");
    let text = text.replace(import, "use crate::facade::atomic::");
    for needed in ["fn get_runtime_feature", "pub fn match_uri_vectored", "pub fn match_header_value_vectored", "pub fn match_header_name_vectored"] {
        assert!(text.contains(needed), "{} not found in {}", needed, src.display());
    }
    let out = PathBuf::from(env::var("OUT_DIR").unwrap()).join("runtime_subject.rs");
    fs::write(&out, text).unwrap();
}
