//! Copies the subject's src/simd/runtime.rs, replacing exactly one thing: the import
//! `use std::sync::atomic::` becomes `use crate::facade::atomic::` (an AtomicU8 with a const `new`
//! that forwards load/store to a loom atomic). Anything unexpected fails the build loudly.

use std::env;
use std::fs;
use std::path::PathBuf;

fn main() {
    println!("cargo:rerun-if-env-changed=HTTPARSE_REPO");
    println!("cargo::rustc-check-cfg=cfg(httparse_verif)");
    let repo = env::var("HTTPARSE_REPO").unwrap_or_else(|_| "/repo".to_string());
    let src = PathBuf::from(&repo).join("src/simd/runtime.rs");
    println!("cargo:rerun-if-changed={}", src.display());
    let text = fs::read_to_string(&src).unwrap_or_else(|e| panic!("cannot read {}: {}", src.display(), e));
    let import = "use std::sync::atomic::";
    assert_eq!(text.matches(import).count(), 1, "expected exactly one `{}` in {}", import, src.display());
    assert!(!text.contains("core::sync::atomic"), "runtime.rs reaches atomics through another path");
    let text = text.replace(import, "use crate::facade::atomic::");
    // (what the harness calls — the three match_*_vectored functions and verif_runtime_feature —
    // is checked by the compiler: a source without them fails the build of this crate loudly)
    let out = PathBuf::from(env::var("OUT_DIR").unwrap()).join("runtime_subject.rs");
    fs::write(&out, text).unwrap();
}
