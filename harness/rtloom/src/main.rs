//! S5 — schedules: the real src/simd/runtime.rs (textually included, see build.rs) under loom,
//! on a simulated CPU.
//!
//!   rtloom <cpu: avx2|sse42|none> <threads> <calls-per-thread> [--out json]
//!
//! In every execution (every interleaving, and every stale value a Relaxed load may legally
//! return): each dispatched call lands on a backend the simulated CPU supports, runs exactly one
//! scanner, leaves the cursor where the scalar scanner would; no panic, no deadlock; and at
//! quiescence the cache holds the detected backend id.

use std::sync::atomic::{AtomicU64, AtomicU8, Ordering as StdOrdering};

/// simulated CPU: bit 0 = avx2, bit 1 = sse4.2, bit 2 = avx
static CPU: AtomicU8 = AtomicU8::new(0);

/// Does the simulated CPU have `feature`? (any feature name the subject may ask about)
pub fn cpu_has(feature: &str) -> bool {
    let cpu = CPU.load(StdOrdering::Relaxed);
    match feature {
        "avx2" => cpu & 1 != 0,
        "sse4.2" | "sse4.1" | "ssse3" | "sse3" | "popcnt" => cpu & 2 != 0,
        "avx" => cpu & 4 != 0,
        "sse2" | "sse" => true,
        _ => false,
    }
}
static EXECUTIONS: AtomicU64 = AtomicU64::new(0);
static DISPATCHES: AtomicU64 = AtomicU64::new(0);
static BACKEND_HITS: [AtomicU64; 3] = [AtomicU64::new(0), AtomicU64::new(0), AtomicU64::new(0)];

/// Shadows std's macro inside the included source: answers from the simulated CPU.
macro_rules! is_x86_feature_detected {
    ($f:tt) => {
        crate::cpu_has($f)
    };
}

mod iter {
    pub use httparse::_benchable::Bytes;
}

mod facade {
    pub mod atomic {
        pub use std::sync::atomic::Ordering;

        loom::lazy_static! {
            static ref CELL: loom::sync::atomic::AtomicU8 = loom::sync::atomic::AtomicU8::new(0);
        }

        /// `static X: AtomicU8 = AtomicU8::new(0)` needs a const constructor, which loom's atomic
        /// does not have: the value lives in a loom lazy_static (fresh in every execution).
        pub struct AtomicU8 {
            init: u8,
        }

        #[allow(dead_code)]
        impl AtomicU8 {
            pub const fn new(v: u8) -> AtomicU8 {
                AtomicU8 { init: v }
            }
            pub fn load(&self, o: Ordering) -> u8 {
                assert_eq!(self.init, 0);
                CELL.load(o)
            }
            pub fn store(&self, v: u8, o: Ordering) {
                CELL.store(v, o)
            }
            pub fn swap(&self, v: u8, o: Ordering) -> u8 {
                CELL.swap(v, o)
            }
            pub fn compare_exchange(&self, c: u8, n: u8, s: Ordering, f: Ordering) -> Result<u8, u8> {
                CELL.compare_exchange(c, n, s, f)
            }
            pub fn compare_exchange_weak(&self, c: u8, n: u8, s: Ordering, f: Ordering) -> Result<u8, u8> {
                CELL.compare_exchange_weak(c, n, s, f)
            }
            pub fn fetch_or(&self, v: u8, o: Ordering) -> u8 {
                CELL.fetch_or(v, o)
            }
            pub fn fetch_and(&self, v: u8, o: Ordering) -> u8 {
                CELL.fetch_and(v, o)
            }
            pub fn fetch_add(&self, v: u8, o: Ordering) -> u8 {
                CELL.fetch_add(v, o)
            }
            pub fn fetch_max(&self, v: u8, o: Ordering) -> u8 {
                CELL.fetch_max(v, o)
            }
        }
    }
}

// loom threads are coroutines on one OS thread: the per-thread counter must be loom's
loom::thread_local! {
    static CALLS_IN_DISPATCH: std::cell::Cell<u32> = std::cell::Cell::new(0);
}

fn scalar(b: &mut iter::Bytes<'_>, class: fn(u8) -> bool) {
    while let Some(x) = b.peek() {
        if !class(x) {
            break;
        }
        // SAFETY: peeked
        unsafe { b.bump() };
    }
}

fn hit(backend: usize, needs: u8) {
    let cpu = CPU.load(StdOrdering::Relaxed);
    assert!(needs == 0 || cpu & needs != 0, "dispatched to a backend the CPU does not support (cpu bits {:#b}, backend {})", cpu, ["avx2", "sse4.2", "swar"][backend]);
    BACKEND_HITS[backend].fetch_add(1, StdOrdering::Relaxed);
    CALLS_IN_DISPATCH.with(|c| c.set(c.get() + 1));
}

fn is_uri(b: u8) -> bool {
    (0x21..=0x7E).contains(&b) || b >= 0x80
}
fn is_value(b: u8) -> bool {
    b == 9 || (0x20..=0x7E).contains(&b) || b >= 0x80
}
fn is_name(b: u8) -> bool {
    b.is_ascii_alphanumeric() || b"!#$%&'*+-.^_`|~".contains(&b)
}

#[allow(dead_code, clippy::all)]
mod simd {
    pub mod swar {
        use crate::iter::Bytes;
        pub fn match_uri_vectored(b: &mut Bytes<'_>) {
            crate::hit(2, 0);
            crate::scalar(b, crate::is_uri)
        }
        pub fn match_header_value_vectored(b: &mut Bytes<'_>) {
            crate::hit(2, 0);
            crate::scalar(b, crate::is_value)
        }
        pub fn match_header_name_vectored(b: &mut Bytes<'_>) {
            crate::hit(2, 0);
            crate::scalar(b, crate::is_name)
        }
    }
    pub mod avx2 {
        use crate::iter::Bytes;
        pub unsafe fn match_uri_vectored(b: &mut Bytes<'_>) {
            crate::hit(0, 1);
            crate::scalar(b, crate::is_uri)
        }
        pub unsafe fn match_header_value_vectored(b: &mut Bytes<'_>) {
            crate::hit(0, 1);
            crate::scalar(b, crate::is_value)
        }
    }
    pub mod sse42 {
        use crate::iter::Bytes;
        pub unsafe fn match_uri_vectored(b: &mut Bytes<'_>) {
            crate::hit(1, 2);
            crate::scalar(b, crate::is_uri)
        }
        pub unsafe fn match_header_value_vectored(b: &mut Bytes<'_>) {
            crate::hit(1, 2);
            crate::scalar(b, crate::is_value)
        }
    }
    pub mod runtime {
        include!(concat!(env!("OUT_DIR"), "/runtime_subject.rs"));
    }
}

/// One dispatched call; `which` selects the scanner entry point.
fn dispatched_call(which: usize) {
    let (input, expect): (&[u8], usize) = match which % 3 {
        0 => (b"/index.html?q=1 HTTP/1.1", 15),
        1 => (b"text/html; q=0.9\r\nX: y", 16),
        _ => (b"Content-Length: 3", 14),
    };
    let mut b = iter::Bytes::new(input);
    CALLS_IN_DISPATCH.with(|c| c.set(0));
    match which % 3 {
        0 => simd::runtime::match_uri_vectored(&mut b),
        1 => simd::runtime::match_header_value_vectored(&mut b),
        _ => simd::runtime::match_header_name_vectored(&mut b),
    }
    DISPATCHES.fetch_add(1, StdOrdering::Relaxed);
    assert_eq!(CALLS_IN_DISPATCH.with(|c| c.get()), 1, "a dispatched call must run exactly one scanner");
    assert_eq!(b.pos(), expect, "dispatched scanner left the cursor at the wrong position");
}

fn main() {
    let args: Vec<String> = std::env::args().collect();
    if args.len() < 4 {
        eprintln!("usage: rtloom <avx2|avx|sse42|none> <threads> <calls> [--out json]");
        std::process::exit(2);
    }
    let ids = simd::runtime::VERIF_BACKEND_IDS;
    let (cpu_bits, expect_id) = match args[1].as_str() {
        "avx2" => (7u8, ids[0]),
        // Sandy-Bridge-like: AVX and SSE4.2 but no AVX2
        "avx" => (6, ids[1]),
        "sse42" => (2, ids[1]),
        "none" => (0, ids[2]),
        _ => {
            eprintln!("unknown cpu");
            std::process::exit(2);
        }
    };
    let threads: usize = args[2].parse().unwrap();
    let calls: usize = args[3].parse().unwrap();
    let out = args.iter().position(|a| a == "--out").map(|i| args[i + 1].clone());
    CPU.store(cpu_bits, StdOrdering::Relaxed);
    let t0 = std::time::Instant::now();
    let mut builder = loom::model::Builder::new();
    builder.preemption_bound = None;
    builder.check(move || {
        EXECUTIONS.fetch_add(1, StdOrdering::Relaxed);
        let hs: Vec<_> = (0..threads)
            .map(|t| {
                loom::thread::spawn(move || {
                    for k in 0..calls {
                        dispatched_call(t + k);
                    }
                })
            })
            .collect();
        for h in hs {
            h.join().unwrap();
        }
        // quiescence: the cache holds the detected id
        let cached = simd::runtime::verif_runtime_feature();
        assert_eq!(cached, expect_id, "at quiescence the cache must hold the detected backend id");
        // and a late call still works
        dispatched_call(0);
    });
    let body = format!(
        "{{\"cpu\":\"{}\",\"threads\":{},\"calls_per_thread\":{},\"executions\":{},\"dispatches\":{},\"hits_avx2\":{},\"hits_sse42\":{},\"hits_swar\":{},\"wall_s\":{:.2}}}",
        args[1], threads, calls,
        EXECUTIONS.load(StdOrdering::Relaxed), DISPATCHES.load(StdOrdering::Relaxed),
        BACKEND_HITS[0].load(StdOrdering::Relaxed), BACKEND_HITS[1].load(StdOrdering::Relaxed), BACKEND_HITS[2].load(StdOrdering::Relaxed),
        t0.elapsed().as_secs_f64()
    );
    match out {
        Some(p) => std::fs::write(p, body).unwrap(),
        None => println!("{}", body),
    }
}
