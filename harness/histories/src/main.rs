//! S4 — operation histories, explored with stateright on the real parser.
//!
//!   histories reuse <quick|thorough> --out <json>      C18 (and the storage invariants of C17)
//!   histories delivery <quick|thorough> --out <json>   C02: every chunking of a byte stream
//!   histories replay <file>
//!
//! State = the snapshot of everything a later call can read (the `headers` slice: its length and
//! the content of every slot; the Option fields), plus the operation list that produced it (kept
//! for replay, excluded from the hash) and the depth (included in the hash). Two histories with
//! equal snapshots have equal futures by construction — the parser reads nothing else. The next
//! state is obtained by replaying the whole history on a fresh real value (live borrows cannot be
//! cloned), which re-validates determinism on every transition. The same model is also run
//! *without* the canonicalisation (state = full history) to a smaller depth; the sets of snapshots
//! reached must be identical.

use httparse::{Header, ParserConfig, Request, Response, Status, EMPTY_HEADER};
use stateright::{Checker, Model, Property};
use std::collections::BTreeSet;
use std::hash::{Hash, Hasher};
use std::mem::MaybeUninit;
use std::sync::Mutex;

#[derive(Clone, Copy, PartialEq, Eq, Hash, Debug, PartialOrd, Ord)]
pub struct Op {
    pub buf: u8,
    /// 0 parse · 1 ParserConfig(all lenient) · 2 uninit, default config · 3 uninit, all lenient
    pub entry: u8,
}

const REQ_BUFS: &[&[u8]] = &[
    b"",
    b"GET",
    b"GET /a HT",
    b"GET /a HTTP/1.1\r\n",
    b"GET /a HTTP/1.1\r\nH1: v1\r\n",
    b"GET /a HTTP/1.1\r\nH1: v1\r\nH2: v2\r\nH3",
    b"GET /b HTTP/1.0\r\n\r\n",
    b"POST /c HTTP/1.1\r\nA: 1\r\n\r\n",
    b"PUT /d HTTP/1.1\r\nA: 1\r\nB: 2\r\n\r\nbody",
    b"HEAD /e HTTP/1.1\r\nA: 1\r\nB: 2\r\nC: 3\r\n\r\n",
    b"GET /f HTTP/1.1\r\nA: 1\r\nB: 2\r\nC: 3\r\nD: 4\r\n\r\n",
    b"G\x01T / HTTP/1.1\r\n\r\n",
    b"GET / HTTP/2.0\r\n\r\n",
    b"GET / HTTP/1.1\rX",
    b"GET /g HTTP/1.1\r\nA: 1\r\nB C: 2\r\n\r\n",
    b"GET /h HTTP/1.1\r\nA: 1\r\nB: 2\r\nC: \x01\r\n\r\n",
    b"GET  /m  HTTP/1.1\r\n X: y\r\nbad\r\nZ: w\r\n\r\n",
    // strict: stores A then fails on the next line; lenient: drops that line
    b"GET /n HTTP/1.1\r\nA: 1\r\n there\r\nB: 2\r\n\r\n",
    // near misses of the shapes above: a known method / path followed by a wrong delimiter
    b"GET/a HTTP/1.1\r\nH1: v1\r\n\r\n",
    b"GET /a\tHTTP/1.1\r\n\r\n",
    b"GET /a HTTP/1.1\nH1: v1\n\n",
    // ends inside the target; and a message with the same method length and a shorter target
    b"GET /a-long-target-without-end",
    b"PUT /x HTTP/1.1\r\nReferer: http://x/yyy\r\n\r\n",
    // every error kind has to occur in a history: NewLine from a lone CR among the leading empty
    // lines and from a lone CR where the head must end
    // long targets of one length: one cut off after the headers began, one with a control byte
    // inside, one valid and different (a shortcut that trusts the previous call's target length)
    b"GET /aaaaaaaaaaaaaaaaaaaaaaaaaaaaaaaaaaaaaaaaaaaaaaaaaaaaaaaaaaaaaaaaaaaaaaaaaaaaaaa HTTP/1.1\r\nHost: exa",
    b"GET /bbbbbbbbbbbbbbbbbbbbbbbbbbbbbbbbbbbbbbbb\x01bbbbbbbbbbbbbbbbbbbbbbbbbbbbbbbbbbbbbb HTTP/1.1\r\n\r\n",
    b"GET /ccccccccccccccccccccccccccccccccccccccccccccccccccccccccccccccccccccccccccccccc HTTP/1.1\r\n\r\n",
    b"\r\n\rGET /n HTTP/1.1\r\n\r\n",
    b"GET /o HTTP/1.1\r\nA: 1\r\n\rX",
];

const RESP_BUFS: &[&[u8]] = &[
    b"",
    b"HTTP/1.",
    b"HTTP/1.1 20",
    b"HTTP/1.1 200 OK\r\n",
    b"HTTP/1.1 200 OK\r\nH1: v1\r\n",
    b"HTTP/1.1 200 OK\r\nH1: v1\r\nH2: v2\r\nH3",
    b"HTTP/1.0 204\r\n\r\n",
    b"HTTP/1.1 404 Not Found\r\nA: 1\r\n\r\n",
    b"HTTP/1.1 500 \r\nA: 1\r\nB: 2\r\n\r\nbody",
    b"HTTP/1.1 301 R\xe9\r\nA: 1\r\nB: 2\r\nC: 3\r\n\r\n",
    b"HTTP/1.1 200 OK\r\nA: 1\r\nB: 2\r\nC: 3\r\nD: 4\r\n\r\n",
    b"HTTP/1.1 2x0 OK\r\n\r\n",
    b"HTTP/2.0 200 OK\r\n\r\n",
    b"HTTP/1.1 200 OK\rX",
    b"HTTP/1.1 200 OK\r\nA: 1\r\nB C: 2\r\n\r\n",
    b"HTTP/1.1 200 OK\r\nA: 1\r\nB: 2\r\nC: \x01\r\n\r\n",
    b"HTTP/1.1  200  OK\r\n X : y\r\n z\r\nbad\r\nZ: w\r\n\r\n",
    // strict: stores "Folded: hello" then fails on the continuation; lenient: one folded header
    b"HTTP/1.1 200 OK\r\nFolded: hello\r\n there\r\nB: 1\r\n\r\n",
    b"HTTP/1.1 200\r\nA: 1\r\n\r\n",
    b"HTTP/1.1200 OK\r\nH1: v1\r\n\r\n",
    b"HTTP/1.1 200OK\r\n\r\n",
    b"HTTP/1.0 200 OK\nH1: v1\n\n",
    // long reasons of one length (valid; with a byte >= 0x80; cut off)
    b"HTTP/1.1 200 rrrrrrrrrrrrrrrrrrrrrrrrrrrrrrrrrrrrrrrrrrrrrrrrrrrrrrrrrrrrrrrrrrrrrrrr\r\nA: 1\r\n\r\n",
    b"HTTP/1.1 500 ssssssssssssssssssssssssssssssssssss\xe9sssssssssssssssssssssssssssssssssss\r\n\r\n",
    b"HTTP/1.1 404 tttttttttttttttttttttttttttttttttttttttttttttttttttttttttttttttttttttttt\r\nB",
    // NewLine: a lone CR among the leading empty lines / where the head must end
    b"\rHTTP/1.1 200 OK\r\n\r\n",
    b"HTTP/1.1 200 OK\r\nA: 1\r\n\rX",
];

/// header blocks for parse_headers re-using one array
const HDR_BUFS: &[&[u8]] = &[
    b"",
    b"A",
    b"A: 1\r\n",
    b"A: 1\r\nB: 2\r\nC",
    b"\r\n",
    b"A: 1\r\n\r\n",
    b"Bb: 22\nA: 1\n\nrest",
    b"A: 1\r\nB: 2\r\nC: 3\r\n\r\n",
    b"A: 1\r\nB: 2\r\nC: 3\r\nD: 4\r\n\r\n",
    b"A: 1\r\nB C: 2\r\n\r\n",
    b"A: 1\r\nB: 2\r\nC: \x01\r\n\r\n",
    b"A:\r\nB: \t \r\n\r\n",
    b"A: 1\r\n there\r\n\r\n",
    b"A: 1\r\n\rX",
];

fn lenient() -> ParserConfig {
    let mut c = ParserConfig::default();
    c.allow_spaces_after_header_name_in_responses(true);
    c.allow_obsolete_multiline_headers_in_responses(true);
    c.allow_multiple_spaces_in_request_line_delimiters(true);
    c.allow_multiple_spaces_in_response_status_delimiters(true);
    c.allow_space_before_first_header_name(true);
    c.ignore_invalid_headers_in_responses(true);
    c.ignore_invalid_headers_in_requests(true);
    c
}

type Hdrs = Vec<(String, Vec<u8>)>;

/// What a call returned: status (and offset / error), and for Complete the fields and headers.
#[derive(Clone, PartialEq, Eq, Hash, Debug, PartialOrd, Ord)]
pub enum Res {
    Partial,
    Err(String),
    Complete { n: usize, f1: Option<String>, f2: Option<String>, version: Option<u8>, code: Option<u16>, headers: Hdrs },
}

/// Everything a later call on the same value can read.
#[derive(Clone, PartialEq, Eq, Hash, Debug, PartialOrd, Ord)]
pub struct Snap {
    pub hlen: usize,
    pub slots: Hdrs,
    pub f1: Option<String>,
    pub f2: Option<String>,
    pub version: Option<u8>,
    pub code: Option<u16>,
}

fn hdrs(h: &[Header<'_>]) -> Hdrs {
    h.iter().map(|h| (h.name.to_string(), h.value.to_vec())).collect()
}

#[derive(Clone, Copy, PartialEq, Eq, Debug, Hash)]
pub enum Kind {
    Request,
    Response,
    /// parse_headers called again and again on one caller-owned array
    Headers,
}

/// Replays `ops` on one fresh value whose array has `init_cap` slots (uninit entry points get
/// their own array of `uninit_cap` slots per call). Returns each call's result, the snapshot after
/// each call, and for each call whether the `headers` slice was left exactly as it was.
fn replay(kind: Kind, init_cap: usize, uninit_cap: usize, ops: &[Op]) -> (Vec<Res>, Vec<Snap>, Vec<bool>) {
    let cfg = lenient();
    let mut results = Vec::new();
    let mut snaps = Vec::new();
    let mut untouched = Vec::new();
    let mut arr = vec![EMPTY_HEADER; init_cap];
    let mut uninit: Vec<Vec<MaybeUninit<Header<'static>>>> = (0..ops.len()).map(|_| (0..uninit_cap).map(|_| MaybeUninit::uninit()).collect()).collect();
    let mut it = uninit.iter_mut();
    match kind {
        Kind::Headers => {
            for op in ops {
                let buf: &'static [u8] = HDR_BUFS[op.buf as usize];
                let res = match httparse::parse_headers(buf, &mut arr[..]) {
                    Ok(Status::Complete((n, h))) => Res::Complete { n, f1: None, f2: None, version: None, code: None, headers: hdrs(h) },
                    Ok(Status::Partial) => Res::Partial,
                    Err(e) => Res::Err(format!("{:?}", e)),
                };
                untouched.push(true);
                results.push(res);
                // what a later call can read: the whole array
                snaps.push(Snap { hlen: arr.len(), slots: hdrs(&arr), f1: None, f2: None, version: None, code: None });
            }
        }
        Kind::Request => {
            let mut r = Request::new(&mut arr[..]);
            for op in ops {
                let buf: &'static [u8] = REQ_BUFS[op.buf as usize];
                let u = it.next().unwrap();
                let before = (r.headers.as_ptr() as usize, r.headers.len());
                let res = match op.entry {
                    0 => r.parse(buf),
                    1 => cfg.parse_request(&mut r, buf),
                    2 => r.parse_with_uninit_headers(buf, &mut u[..]),
                    _ => cfg.parse_request_with_uninit_headers(&mut r, buf, &mut u[..]),
                };
                untouched.push(before == (r.headers.as_ptr() as usize, r.headers.len()));
                results.push(match res {
                    Ok(Status::Complete(n)) => Res::Complete { n, f1: r.method.map(String::from), f2: r.path.map(String::from), version: r.version, code: None, headers: hdrs(r.headers) },
                    Ok(Status::Partial) => Res::Partial,
                    Err(e) => Res::Err(format!("{:?}", e)),
                });
                snaps.push(Snap { hlen: r.headers.len(), slots: hdrs(r.headers), f1: r.method.map(String::from), f2: r.path.map(String::from), version: r.version, code: None });
            }
        }
        Kind::Response => {
            let mut r = Response::new(&mut arr[..]);
            for op in ops {
                let buf: &'static [u8] = RESP_BUFS[op.buf as usize];
                let u = it.next().unwrap();
                let before = (r.headers.as_ptr() as usize, r.headers.len());
                let res = match op.entry {
                    0 => r.parse(buf),
                    1 => cfg.parse_response(&mut r, buf),
                    2 => ParserConfig::default().parse_response_with_uninit_headers(&mut r, buf, &mut u[..]),
                    _ => cfg.parse_response_with_uninit_headers(&mut r, buf, &mut u[..]),
                };
                untouched.push(before == (r.headers.as_ptr() as usize, r.headers.len()));
                results.push(match res {
                    Ok(Status::Complete(n)) => Res::Complete { n, f1: r.reason.map(String::from), f2: None, version: r.version, code: r.code, headers: hdrs(r.headers) },
                    Ok(Status::Partial) => Res::Partial,
                    Err(e) => Res::Err(format!("{:?}", e)),
                });
                snaps.push(Snap { hlen: r.headers.len(), slots: hdrs(r.headers), f1: r.reason.map(String::from), f2: None, version: r.version, code: r.code });
            }
        }
    }
    (results, snaps, untouched)
}

fn initial_snap(cap: usize) -> Snap {
    Snap { hlen: cap, slots: vec![(String::new(), Vec::new()); cap], f1: None, f2: None, version: None, code: None }
}

// --------------------------------------------------------------------------------------------
// reuse model (C18, C17)
// --------------------------------------------------------------------------------------------

#[derive(Clone, Debug)]
pub struct HState {
    pub ops: Vec<Op>,
    pub snap: Snap,
    pub any_complete: bool,
    canonical: bool,
}

impl Hash for HState {
    fn hash<H: Hasher>(&self, h: &mut H) {
        if self.canonical {
            self.snap.hash(h);
            self.any_complete.hash(h);
            self.ops.len().hash(h);
        } else {
            self.ops.hash(h);
        }
    }
}

impl PartialEq for HState {
    fn eq(&self, o: &Self) -> bool {
        if self.canonical {
            self.snap == o.snap && self.any_complete == o.any_complete && self.ops.len() == o.ops.len()
        } else {
            self.ops == o.ops
        }
    }
}

pub struct Reuse {
    pub kind: Kind,
    pub cap: usize,
    pub depth: usize,
    pub canonical: bool,
    pub ops: Vec<Op>,
}

static SNAPS: Mutex<BTreeSet<Snap>> = Mutex::new(BTreeSet::new());
static PROBES: std::sync::atomic::AtomicU64 = std::sync::atomic::AtomicU64::new(0);

/// C18: the probe on the reused value equals the probe on a fresh value whose array has the
/// current `headers` length; and, while no earlier call returned Complete (the README loop), also
/// the probe on a fresh value over the original array. Returns the first failing probe.
fn failing_probe(m: &Reuse, s: &HState) -> Option<(Op, Res, Res, &'static str)> {
    for &p in &m.ops {
        let mut ops = s.ops.clone();
        ops.push(p);
        let reused = replay(m.kind, m.cap, m.cap, &ops).0.pop().unwrap();
        let fresh = replay(m.kind, s.snap.hlen, m.cap, &[p]).0.pop().unwrap();
        PROBES.fetch_add(2, std::sync::atomic::Ordering::Relaxed);
        if reused != fresh {
            return Some((p, reused, fresh, "fresh value whose array has the current headers length"));
        }
        if !s.any_complete {
            let orig = replay(m.kind, m.cap, m.cap, &[p]).0.pop().unwrap();
            PROBES.fetch_add(1, std::sync::atomic::Ordering::Relaxed);
            if reused != orig {
                return Some((p, reused, orig, "fresh value over the original array (no earlier call returned Complete)"));
            }
        }
    }
    None
}

/// C17 along histories: a non-Complete call through an initialised-array entry point leaves
/// `headers` referring to the same whole slice, through an uninit entry point leaves it untouched;
/// a Complete call exposes exactly its headers.
fn storage_violation(m: &Reuse, s: &HState) -> Option<String> {
    if s.ops.is_empty() || m.kind == Kind::Headers {
        return None;
    }
    let (results, snaps, untouched) = replay(m.kind, m.cap, m.cap, &s.ops);
    let mut prev = initial_snap(m.cap);
    for i in 0..s.ops.len() {
        match &results[i] {
            Res::Complete { headers, .. } => {
                if snaps[i].hlen != headers.len() || &snaps[i].slots != headers {
                    return Some(format!("call {}: Complete exposes {} slots for {} headers", i, snaps[i].hlen, headers.len()));
                }
            }
            _ => {
                if !untouched[i] || snaps[i].hlen != prev.hlen {
                    return Some(format!("call {}: non-Complete call changed the headers slice ({} -> {} slots)", i, prev.hlen, snaps[i].hlen));
                }
            }
        }
        prev = snaps[i].clone();
    }
    None
}

/// C16 on re-used values: the initialised-array and the uninit entry point of the same
/// configuration return the same status and leave the same fields behind, whatever earlier calls
/// did to the value.
fn entry_disagreement(m: &Reuse, s: &HState) -> Option<(Op, Op, String, String)> {
    let nbuf = match m.kind {
        Kind::Request => REQ_BUFS.len(),
        Kind::Response => RESP_BUFS.len(),
        Kind::Headers => return None,
    };
    let have3 = m.ops.iter().any(|o| o.entry == 3);
    // "same buffer, configuration and capacity": the initialised-array entry points work on the
    // current `headers` slice, the uninit ones on the array passed to them (m.cap slots) — after a
    // Complete call has shrunk the slice the two capacities differ and the calls are not comparable
    if s.snap.hlen != m.cap {
        // ... unless the slice is short for another reason than a Complete: what C17 lets the
        // history leave behind is the whole array, shrunk by Complete calls only. If that is the
        // whole array, the caller still has "capacity m.cap" and the entry points must agree.
        let (res, _, _) = replay(m.kind, m.cap, m.cap, &s.ops);
        let mut expected = m.cap;
        for r in res.iter() {
            if let Res::Complete { headers, .. } = r {
                expected = headers.len();
            }
        }
        if expected != m.cap {
            return None;
        }
    }
    for b in 0..nbuf as u8 {
        for (ea, eb) in [(0u8, 2u8), (1, 3)] {
            if eb == 3 && !have3 {
                continue;
            }
            let run = |e: u8| {
                let mut ops = s.ops.clone();
                ops.push(Op { buf: b, entry: e });
                let (mut r, mut sn, _) = replay(m.kind, m.cap, m.cap, &ops);
                let sn = sn.pop().unwrap();
                (r.pop().unwrap(), sn.f1, sn.f2, sn.version, sn.code)
            };
            let (ra, rb) = (run(ea), run(eb));
            PROBES.fetch_add(2, std::sync::atomic::Ordering::Relaxed);
            if ra != rb {
                return Some((Op { buf: b, entry: ea }, Op { buf: b, entry: eb }, format!("{:?}", ra), format!("{:?}", rb)));
            }
        }
    }
    None
}

impl Model for Reuse {
    type State = HState;
    type Action = Op;

    fn init_states(&self) -> Vec<HState> {
        vec![HState { ops: vec![], snap: initial_snap(self.cap), any_complete: false, canonical: self.canonical }]
    }

    fn actions(&self, s: &HState, actions: &mut Vec<Op>) {
        if s.ops.len() < self.depth {
            actions.extend(self.ops.iter().cloned());
        }
    }

    fn next_state(&self, s: &HState, a: Op) -> Option<HState> {
        let mut ops = s.ops.clone();
        ops.push(a);
        let (results, mut snaps, _) = replay(self.kind, self.cap, self.cap, &ops);
        let snap = snaps.pop().unwrap();
        SNAPS.lock().unwrap().insert(snap.clone());
        let any_complete = s.any_complete || matches!(results.last(), Some(Res::Complete { .. }));
        Some(HState { ops, snap, any_complete, canonical: self.canonical })
    }

    fn properties(&self) -> Vec<Property<Self>> {
        vec![
            Property::always("C18 probe on reused value equals probe on fresh value", |m: &Reuse, s: &HState| failing_probe(m, s).is_none()),
            Property::always("C17 headers slice restored / untouched / exact along histories", |m: &Reuse, s: &HState| storage_violation(m, s).is_none()),
            Property::always("C16 initialised-array and uninit entry points agree on a re-used value", |m: &Reuse, s: &HState| entry_disagreement(m, s).is_none()),
        ]
    }
}

fn all_ops(kind: Kind, quick: bool) -> Vec<Op> {
    let n = match kind {
        Kind::Request => REQ_BUFS.len(),
        Kind::Response => RESP_BUFS.len(),
        Kind::Headers => HDR_BUFS.len(),
    };
    let entries: &[u8] = if kind == Kind::Headers { &[0] } else if quick { &[0, 1, 2] } else { &[0, 1, 2, 3] };
    let mut v = Vec::new();
    for b in 0..n {
        for &e in entries {
            v.push(Op { buf: b as u8, entry: e });
        }
    }
    v
}

fn esc(s: &str) -> String {
    s.replace('\\', "\\\\").replace('"', "\\\"").replace('\n', "\\n").replace('\r', "\\r")
}

fn ops_json(ops: &[Op]) -> String {
    format!("[{}]", ops.iter().map(|o| format!("[{},{}]", o.buf, o.entry)).collect::<Vec<_>>().join(","))
}

fn printable(b: &[u8]) -> String {
    let mut s = String::new();
    for &x in b {
        match x {
            b'\r' => s.push_str("\\r"),
            b'\n' => s.push_str("\\n"),
            0x20..=0x7E => s.push(x as char),
            _ => s.push_str(&format!("\\x{:02x}", x)),
        }
    }
    s
}

struct Summary {
    states: u64,
    unique: u64,
    transitions: u64,
    max_depth: usize,
    instances: Vec<String>,
    violations: Vec<String>,
    samples: Vec<String>,
}

fn run_reuse(quick: bool, replay_dir: &str, prop: &str, sum: &mut Summary) {
    let depth_c = if quick { 3 } else { 4 };
    let depth_u = if quick { 2 } else { 3 };
    for kind in [Kind::Request, Kind::Response, Kind::Headers] {
        for cap in [0usize, 1, 2, 3] {
            let mut reached: Vec<BTreeSet<Snap>> = Vec::new();
            for (canonical, depth) in [(true, depth_c), (false, depth_u)] {
                SNAPS.lock().unwrap().clear();
                let ops = all_ops(kind, quick);
                let nops = ops.len();
                let model = Reuse { kind, cap, depth, canonical, ops };
                let checker = model.checker().threads(16).spawn_dfs().join();
                let st = checker.state_count() as u64;
                let un = checker.unique_state_count() as u64;
                sum.states += un;
                // every unique state below the depth bound has one outgoing transition per op
                sum.transitions += st.saturating_sub(1);
                sum.max_depth = sum.max_depth.max(checker.max_depth());
                sum.instances.push(format!(
                    "{{\"model\":\"reuse\",\"kind\":\"{:?}\",\"capacity\":{},\"depth\":{},\"canonical\":{},\"operations\":{},\"states_generated\":{},\"unique_states\":{},\"max_depth\":{}}}",
                    kind, cap, depth, canonical, nops, st, un, checker.max_depth()
                ));
                for (name, path) in checker.discoveries() {
                    let last = path.last_state().clone();
                    let m = checker.model();
                    let (what, probe, a, b) = if name.starts_with("C16") {
                        match entry_disagreement(m, &last) {
                            Some((pa, pb, ra, rb)) => (format!("entry {} and entry {} disagree on the same buffer after this history", pa.entry, pb.entry), Some(pa), ra, rb),
                            None => ("(not reproducible)".into(), None, String::new(), String::new()),
                        }
                    } else if name.starts_with("C18") {
                        match failing_probe(m, &last) {
                            Some((p, r, f, w)) => (format!("probe differs from the probe on a {}", w), Some(p), format!("{:?}", r), format!("{:?}", f)),
                            None => ("(not reproducible)".into(), None, String::new(), String::new()),
                        }
                    } else {
                        (storage_violation(m, &last).unwrap_or_default(), None, String::new(), String::new())
                    };
                    let p = if name.starts_with("C18") { "C18" } else if name.starts_with("C16") { "C16" } else { "C17" };
                    let file = format!("{}/{}-history-{:?}-cap{}-{}.json", replay_dir, p, kind, cap, last.ops.len());
                    let body = format!(
                        "{{\"property\":\"{}\",\"kind\":\"history\",\"model\":\"reuse\",\"message_kind\":\"{:?}\",\"capacity\":{},\"depth\":{},\"canonical\":{},\"quick\":{},\"ops\":{},\"probe\":{},\"what\":\"{}\",\"reused\":\"{}\",\"fresh\":\"{}\"}}",
                        p, kind, cap, depth, canonical as u8, quick as u8, ops_json(&last.ops),
                        probe.map_or("null".to_string(), |p| format!("[{},{}]", p.buf, p.entry)),
                        esc(&what), esc(&a), esc(&b)
                    );
                    std::fs::write(&file, body).unwrap();
                    if p == prop || prop == "any" {
                        sum.violations.push(file);
                    }
                }
                reached.push(SNAPS.lock().unwrap().clone());
                if sum.samples.len() < 4 {
                    sum.samples.push(format!("{{\"history\":\"{:?} value, capacity {}: parse({}) then probe parse_with_uninit_headers({}) compared with the probe on a fresh value\"}}", kind, cap, esc(&printable(REQ_BUFS[4])), esc(&printable(REQ_BUFS[8]))));
                }
            }
            // the canonicalisation must not hide anything: every snapshot reached by the
            // un-canonicalised search (shallower) is reached by the canonicalised one
            // (only meaningful when both searches ran to completion: stateright stops at a discovery)
            if sum.violations.is_empty() && !reached[1].is_subset(&reached[0]) {
                sum.violations.push(format!("MACHINERY: canonicalised search misses snapshots ({:?}, capacity {})", kind, cap));
            }
        }
    }
}

// --------------------------------------------------------------------------------------------
// delivery model (C02): every chunking of a stream, re-parsed on the same value
// --------------------------------------------------------------------------------------------

const STREAMS: &[(Kind, &[u8])] = &[
    (Kind::Request, b"GET /abc HTTP/1.1\r\nHost: example\r\nA:  b \r\n\r\nrest"),
    (Kind::Request, b"\r\nPOST /p HTTP/1.0\nX: y\n\n"),
    (Kind::Request, b"GET  /m  HTTP/1.1\r\n X: y\r\nbad\r\nZ: w\r\n\r\n"),
    (Kind::Request, b"GET /a HTTP/1.1\r\nA: 1\r\nB: 2\r\nC\x01: 3\r\n\r\n"),
    (Kind::Response, b"HTTP/1.1 200 OK\r\nServer: s\r\nB:\r\n\r\nbody"),
    (Kind::Response, b"HTTP/1.1  200  OK\r\n X : y\r\n z\r\nbad\r\nZ: w\r\n\r\n"),
    (Kind::Response, b"HTTP/1.0 404 N\xf8t\nA: 1\nB: 2\n\n"),
    (Kind::Headers, b"Host: example\r\nA:  b \r\nC:\r\n\r\nrest"),
    (Kind::Headers, b"A: 1\nB: 2\nC\x01: 3\n\n"),
];

#[derive(Clone, Debug)]
pub struct DState {
    /// prefix lengths delivered so far (each followed by a parse on the same value)
    pub cuts: Vec<usize>,
    pub snap: Snap,
    pub last: Option<Res>,
    canonical: bool,
}

// the future depends only on the last cut, the snapshot and the last result; the full list of cuts
// is kept for replaying the history on a real value and is excluded from hash and equality
impl Hash for DState {
    fn hash<H: Hasher>(&self, h: &mut H) {
        if !self.canonical {
            self.cuts.hash(h);
            return;
        }
        self.cuts.last().hash(h);
        self.snap.hash(h);
        self.last.hash(h);
    }
}

impl PartialEq for DState {
    fn eq(&self, o: &Self) -> bool {
        if !self.canonical {
            return self.cuts == o.cuts;
        }
        self.cuts.last() == o.cuts.last() && self.snap == o.snap && self.last == o.last
    }
}

pub struct Delivery {
    pub stream: usize,
    pub entry: u8,
    pub cap: usize,
    /// canonical: state = (last cut, snapshot, last result), unbounded number of cuts;
    /// otherwise state = the full list of cuts, at most `max_cuts` of them
    pub canonical: bool,
    pub max_cuts: usize,
    /// one-shot result of every prefix length, computed before the exploration on a copy of the
    /// stream that lives at a different address
    pub reference: std::sync::Arc<Vec<Res>>,
}

fn deliver(m: &Delivery, cuts: &[usize]) -> (Vec<Res>, Snap) {
    deliver_from(m, STREAMS[m.stream].1, cuts)
}

fn reference_results(stream: usize, entry: u8, cap: usize) -> std::sync::Arc<Vec<Res>> {
    let copy: &'static [u8] = Box::leak(STREAMS[stream].1.to_vec().into_boxed_slice());
    let m = Delivery { stream, entry, cap, canonical: true, max_cuts: 0, reference: std::sync::Arc::new(Vec::new()) };
    std::sync::Arc::new((0..=copy.len()).map(|k| deliver_from(&m, copy, &[k]).0.pop().unwrap()).collect())
}

fn deliver_from(m: &Delivery, bytes: &'static [u8], cuts: &[usize]) -> (Vec<Res>, Snap) {
    let kind = STREAMS[m.stream].0;
    let cfg = lenient();
    let mut arr = vec![EMPTY_HEADER; m.cap];
    let mut uninit: Vec<Vec<MaybeUninit<Header<'static>>>> = (0..cuts.len()).map(|_| (0..m.cap).map(|_| MaybeUninit::uninit()).collect()).collect();
    let mut it = uninit.iter_mut();
    let mut out = Vec::new();
    match kind {
        Kind::Headers => {
            for &k in cuts {
                let buf: &'static [u8] = &bytes[..k];
                out.push(match httparse::parse_headers(buf, &mut arr[..]) {
                    Ok(Status::Complete((n, h))) => Res::Complete { n, f1: None, f2: None, version: None, code: None, headers: hdrs(h) },
                    Ok(Status::Partial) => Res::Partial,
                    Err(e) => Res::Err(format!("{:?}", e)),
                });
            }
            let snap = Snap { hlen: arr.len(), slots: hdrs(&arr), f1: None, f2: None, version: None, code: None };
            (out, snap)
        }
        Kind::Request => {
            let mut r = Request::new(&mut arr[..]);
            for &k in cuts {
                let buf: &'static [u8] = &bytes[..k];
                let u = it.next().unwrap();
                let res = match m.entry {
                    0 => r.parse(buf),
                    1 => cfg.parse_request(&mut r, buf),
                    2 => r.parse_with_uninit_headers(buf, &mut u[..]),
                    _ => cfg.parse_request_with_uninit_headers(&mut r, buf, &mut u[..]),
                };
                out.push(match res {
                    Ok(Status::Complete(n)) => Res::Complete { n, f1: r.method.map(String::from), f2: r.path.map(String::from), version: r.version, code: None, headers: hdrs(r.headers) },
                    Ok(Status::Partial) => Res::Partial,
                    Err(e) => Res::Err(format!("{:?}", e)),
                });
            }
            let snap = Snap { hlen: r.headers.len(), slots: hdrs(r.headers), f1: r.method.map(String::from), f2: r.path.map(String::from), version: r.version, code: None };
            (out, snap)
        }
        Kind::Response => {
            let mut r = Response::new(&mut arr[..]);
            for &k in cuts {
                let buf: &'static [u8] = &bytes[..k];
                let u = it.next().unwrap();
                let res = match m.entry {
                    0 => r.parse(buf),
                    1 => cfg.parse_response(&mut r, buf),
                    2 => ParserConfig::default().parse_response_with_uninit_headers(&mut r, buf, &mut u[..]),
                    _ => cfg.parse_response_with_uninit_headers(&mut r, buf, &mut u[..]),
                };
                out.push(match res {
                    Ok(Status::Complete(n)) => Res::Complete { n, f1: r.reason.map(String::from), f2: None, version: r.version, code: r.code, headers: hdrs(r.headers) },
                    Ok(Status::Partial) => Res::Partial,
                    Err(e) => Res::Err(format!("{:?}", e)),
                });
            }
            let snap = Snap { hlen: r.headers.len(), slots: hdrs(r.headers), f1: r.reason.map(String::from), f2: None, version: r.version, code: r.code };
            (out, snap)
        }
    }
}

/// The parse of the last delivered prefix on the re-used value equals a one-shot parse of that
/// prefix on a fresh value of the same capacity.
fn delivery_ok(m: &Delivery, s: &DState) -> bool {
    match (s.cuts.last(), &s.last) {
        (Some(&k), Some(last)) => {
            PROBES.fetch_add(1, std::sync::atomic::Ordering::Relaxed);
            *last == m.reference[k]
        }
        _ => true,
    }
}

impl Model for Delivery {
    type State = DState;
    type Action = usize;

    fn init_states(&self) -> Vec<DState> {
        vec![DState { cuts: vec![], snap: initial_snap(self.cap), last: None, canonical: self.canonical }]
    }

    fn actions(&self, s: &DState, actions: &mut Vec<usize>) {
        // the documented loop: parse, read more, parse again — until the parse is not Partial
        if matches!(s.last, Some(Res::Complete { .. }) | Some(Res::Err(_))) {
            return;
        }
        if !self.canonical && s.cuts.len() >= self.max_cuts {
            return;
        }
        let from = s.cuts.last().map_or(0, |&k| k + 1);
        actions.extend(from..=STREAMS[self.stream].1.len());
    }

    fn next_state(&self, s: &DState, k: usize) -> Option<DState> {
        let mut cuts = s.cuts.clone();
        cuts.push(k);
        let (mut results, snap) = deliver(self, &cuts);
        Some(DState { cuts, snap, last: results.pop(), canonical: self.canonical })
    }

    fn properties(&self) -> Vec<Property<Self>> {
        vec![Property::always("C02 re-parse of a growing buffer on the same value equals the one-shot parse", |m: &Delivery, s: &DState| delivery_ok(m, s))]
    }
}

fn run_delivery(quick: bool, replay_dir: &str, sum: &mut Summary) {
    let entries: &[u8] = if quick { &[0, 1, 2] } else { &[0, 1, 2, 3] };
    for stream in 0..STREAMS.len() {
        for &entry in entries {
            if STREAMS[stream].0 == Kind::Headers && entry != 0 {
                continue;
            }
            for (cap, canonical) in [(0usize, true), (1, true), (2, true), (4, true), (1, false), (4, false)] {
                let model = Delivery { stream, entry, cap, canonical, max_cuts: if quick { 2 } else { 3 }, reference: reference_results(stream, entry, cap) };
                // single-threaded: if the subject kept state between calls, concurrent explorations
                // would disturb each other and a discovery would not replay
                let checker = model.checker().threads(1).spawn_dfs().join();
                let st = checker.state_count() as u64;
                let un = checker.unique_state_count() as u64;
                sum.states += un;
                sum.transitions += st.saturating_sub(1);
                sum.max_depth = sum.max_depth.max(checker.max_depth());
                sum.instances.push(format!(
                    "{{\"model\":\"delivery\",\"stream\":{},\"stream_len\":{},\"entry\":{},\"capacity\":{},\"canonical\":{},\"states_generated\":{},\"unique_states\":{},\"max_depth\":{},\"chunkings_covered\":\"{}\"}}",
                    stream, STREAMS[stream].1.len(), entry, cap, canonical, st, un, checker.max_depth(),
                    if canonical { format!("all 2^{} (paths of the snapshot graph)", STREAMS[stream].1.len().saturating_sub(1)) } else { format!("every chunking with at most {} deliveries, state = full history", if quick { 2 } else { 3 }) }
                ));
                for (_name, path) in checker.discoveries() {
                    let cuts: Vec<usize> = path.into_actions();
                    let file = format!("{}/C02-delivery-s{}-e{}-c{}.json", replay_dir, stream, entry, cap);
                    let body = format!(
                        "{{\"property\":\"C02\",\"kind\":\"history\",\"model\":\"delivery\",\"stream\":{},\"entry\":{},\"capacity\":{},\"cuts\":{:?},\"what\":\"re-parsing a growing buffer on the same value differs from the one-shot parse of the same prefix\",\"stream_text\":\"{}\"}}",
                        stream, entry, cap, cuts, esc(&printable(STREAMS[stream].1))
                    );
                    std::fs::write(&file, body).unwrap();
                    sum.violations.push(file);
                }
            }
        }
    }
    sum.samples.push(format!("{{\"delivery\":\"stream {} delivered as prefixes of length 5, 21, 40, then complete; each re-parsed on the same Request\"}}", esc(&printable(STREAMS[0].1))));
}

// --------------------------------------------------------------------------------------------
// recycled receive buffer (C18): different messages copied to the SAME address, each parsed by a
// fresh value over a fresh array; the result may depend on nothing but the bytes
// --------------------------------------------------------------------------------------------

#[derive(Clone, Debug, PartialEq, Eq, Hash)]
pub struct RState {
    pub ops: Vec<(u8, u8)>,
}

pub struct Recycle {
    pub kind: Kind,
    pub depth: usize,
    pub arena: usize,
    pub reference: std::sync::Arc<Vec<[Res; 2]>>,
}

const ARENA: usize = 512;

fn recycle_bufs(kind: Kind) -> &'static [&'static [u8]] {
    match kind {
        Kind::Request => REQ_BUFS,
        Kind::Response => RESP_BUFS,
        Kind::Headers => HDR_BUFS,
    }
}

fn one_shot(kind: Kind, entry: u8, buf: &'static [u8]) -> Res {
    let cfg = lenient();
    let mut arr = vec![EMPTY_HEADER; 4];
    match kind {
        Kind::Request => {
            let mut r = Request::new(&mut arr[..]);
            let res = if entry == 0 { r.parse(buf) } else { cfg.parse_request(&mut r, buf) };
            match res {
                Ok(Status::Complete(n)) => Res::Complete { n, f1: r.method.map(String::from), f2: r.path.map(String::from), version: r.version, code: None, headers: hdrs(r.headers) },
                Ok(Status::Partial) => Res::Partial,
                Err(e) => Res::Err(format!("{:?}", e)),
            }
        }
        Kind::Response => {
            let mut r = Response::new(&mut arr[..]);
            let res = if entry == 0 { r.parse(buf) } else { cfg.parse_response(&mut r, buf) };
            match res {
                Ok(Status::Complete(n)) => Res::Complete { n, f1: r.reason.map(String::from), f2: None, version: r.version, code: r.code, headers: hdrs(r.headers) },
                Ok(Status::Partial) => Res::Partial,
                Err(e) => Res::Err(format!("{:?}", e)),
            }
        }
        Kind::Headers => match httparse::parse_headers(buf, &mut arr[..]) {
            Ok(Status::Complete((n, h))) => Res::Complete { n, f1: None, f2: None, version: None, code: None, headers: hdrs(h) },
            Ok(Status::Partial) => Res::Partial,
            Err(e) => Res::Err(format!("{:?}", e)),
        },
    }
}

/// Replays the history through the arena; returns the last call's result.
fn recycle_last(m: &Recycle, ops: &[(u8, u8)]) -> Option<Res> {
    let mut last = None;
    for &(b, e) in ops {
        let msg = recycle_bufs(m.kind)[b as usize];
        // SAFETY: the arena is a leaked ARENA-byte allocation; no reference into it is alive here
        // (every earlier call's value and array were dropped), and the checker is single-threaded
        let buf: &'static [u8] = unsafe {
            std::ptr::copy_nonoverlapping(msg.as_ptr(), m.arena as *mut u8, msg.len());
            std::slice::from_raw_parts(m.arena as *const u8, msg.len())
        };
        last = Some(one_shot(m.kind, e, buf));
        PROBES.fetch_add(1, std::sync::atomic::Ordering::Relaxed);
    }
    last
}

impl Model for Recycle {
    type State = RState;
    type Action = (u8, u8);
    fn init_states(&self) -> Vec<RState> {
        vec![RState { ops: vec![] }]
    }
    fn actions(&self, s: &RState, actions: &mut Vec<(u8, u8)>) {
        if s.ops.len() < self.depth {
            for b in 0..recycle_bufs(self.kind).len() as u8 {
                for e in 0..if self.kind == Kind::Headers { 1 } else { 2 } {
                    actions.push((b, e));
                }
            }
        }
    }
    fn next_state(&self, s: &RState, a: (u8, u8)) -> Option<RState> {
        let mut ops = s.ops.clone();
        ops.push(a);
        Some(RState { ops })
    }
    fn properties(&self) -> Vec<Property<Self>> {
        vec![Property::always("C18 a message parsed at a recycled buffer address gives the result its bytes alone determine", |m: &Recycle, s: &RState| {
            match (s.ops.last(), recycle_last(m, &s.ops)) {
                (Some(&(b, e)), Some(r)) => r == m.reference[b as usize][e as usize],
                _ => true,
            }
        })]
    }
}

fn run_recycle(quick: bool, replay_dir: &str, sum: &mut Summary) {
    let depth = if quick { 2 } else { 3 };
    for kind in [Kind::Request, Kind::Response, Kind::Headers] {
        // references first, from the immutable static buffers, before the arena is ever used
        let reference: Vec<[Res; 2]> = recycle_bufs(kind).iter().map(|b| [one_shot(kind, 0, b), one_shot(kind, 1, b)]).collect();
        let arena = Box::leak(vec![0u8; ARENA].into_boxed_slice()).as_mut_ptr() as usize;
        let model = Recycle { kind, depth, arena, reference: std::sync::Arc::new(reference) };
        let checker = model.checker().threads(1).spawn_dfs().join();
        let st = checker.state_count() as u64;
        sum.states += checker.unique_state_count() as u64;
        sum.transitions += st.saturating_sub(1);
        sum.max_depth = sum.max_depth.max(checker.max_depth());
        sum.instances.push(format!("{{\"model\":\"recycled-buffer\",\"kind\":\"{:?}\",\"depth\":{},\"messages\":{},\"states_generated\":{},\"unique_states\":{}}}", kind, depth, recycle_bufs(kind).len(), st, checker.unique_state_count()));
        for (_n, path) in checker.discoveries() {
            let ops = path.last_state().ops.clone();
            let file = format!("{}/C18-recycled-{:?}-{}.json", replay_dir, kind, ops.len());
            let body = format!("{{\"property\":\"C18\",\"kind\":\"history\",\"model\":\"recycled\",\"message_kind\":\"{:?}\",\"ops\":{:?},\"what\":\"a message copied to a recycled buffer address parses differently from the same bytes elsewhere\"}}", kind, ops.iter().map(|o| vec![o.0, o.1]).collect::<Vec<_>>());
            std::fs::write(&file, body).unwrap();
            sum.violations.push(file);
        }
    }
}

fn replay_recycled(text: &str) -> i32 {
    let kind = if text.contains("\"message_kind\":\"Request\"") { Kind::Request } else if text.contains("\"message_kind\":\"Headers\"") { Kind::Headers } else { Kind::Response };
    let flat = get_list(text, "ops");
    let ops: Vec<(u8, u8)> = flat.chunks(2).map(|c| (c[0] as u8, c[1] as u8)).collect();
    let reference: Vec<[Res; 2]> = recycle_bufs(kind).iter().map(|b| [one_shot(kind, 0, b), one_shot(kind, 1, b)]).collect();
    let arena = Box::leak(vec![0u8; ARENA].into_boxed_slice()).as_mut_ptr() as usize;
    let m = Recycle { kind, depth: ops.len(), arena, reference: std::sync::Arc::new(reference) };
    println!("replaying: messages copied one after the other to the same buffer address, each parsed by a fresh value");
    for o in &ops {
        println!("  message {:?} via entry {}", printable(recycle_bufs(kind)[o.0 as usize]), o.1);
    }
    let last = recycle_last(&m, &ops).unwrap();
    let (b, e) = *ops.last().unwrap();
    println!("  at the recycled address: {:?}", last);
    println!("  elsewhere              : {:?}", m.reference[b as usize][e as usize]);
    if last != m.reference[b as usize][e as usize] {
        println!("  VIOLATED: C18");
        1
    } else {
        0
    }
}

fn get_num(text: &str, key: &str) -> Option<u64> {
    let pat = format!("\"{}\":", key);
    let i = text.find(&pat)? + pat.len();
    let d: String = text[i..].chars().take_while(|c| c.is_ascii_digit()).collect();
    d.parse().ok()
}

fn get_list(text: &str, key: &str) -> Vec<u64> {
    let pat = format!("\"{}\":", key);
    let i = match text.find(&pat) {
        Some(i) => i + pat.len(),
        None => return vec![],
    };
    let rest = &text[i..];
    if rest.starts_with("null") {
        return vec![];
    }
    // flat list of numbers, possibly nested one level
    let mut depth = 0;
    let mut end = 0;
    for (j, c) in rest.char_indices() {
        if c == '[' {
            depth += 1;
        }
        if c == ']' {
            depth -= 1;
            if depth == 0 {
                end = j;
                break;
            }
        }
    }
    rest[..end].split(|c: char| !c.is_ascii_digit()).filter(|s| !s.is_empty()).map(|s| s.parse().unwrap()).collect()
}

fn replay_file(path: &str) -> i32 {
    let text = std::fs::read_to_string(path).expect("replay file");
    if text.contains("\"model\":\"recycled\"") {
        return replay_recycled(&text);
    }
    if text.contains("\"model\":\"delivery\"") {
        let (st, en, cp) = (get_num(&text, "stream").unwrap() as usize, get_num(&text, "entry").unwrap() as u8, get_num(&text, "capacity").unwrap() as usize);
        let m = Delivery { stream: st, entry: en, cap: cp, canonical: true, max_cuts: 0, reference: reference_results(st, en, cp) };
        let cuts: Vec<usize> = get_list(&text, "cuts").into_iter().map(|v| v as usize).collect();
        println!("replaying delivery history: stream {:?}, entry {}, capacity {}, prefixes {:?}", printable(STREAMS[m.stream].1), m.entry, m.cap, cuts);
        let (results, _) = deliver(&m, &cuts);
        let mut bad = false;
        for (i, &k) in cuts.iter().enumerate() {
            let fresh = m.reference[k].clone();
            println!("  prefix {:>3}: reused {:?}", k, results[i]);
            if results[i] != fresh {
                println!("              fresh  {:?}   <-- differs", fresh);
                bad = true;
            }
        }
        return if bad { 1 } else { 0 };
    }
    let kind = if text.contains("\"message_kind\":\"Request\"") { Kind::Request } else if text.contains("\"message_kind\":\"Headers\"") { Kind::Headers } else { Kind::Response };
    let cap = get_num(&text, "capacity").unwrap() as usize;
    let flat = get_list(&text, "ops");
    let ops: Vec<Op> = flat.chunks(2).map(|c| Op { buf: c[0] as u8, entry: c[1] as u8 }).collect();
    let bufs = match kind {
        Kind::Request => REQ_BUFS,
        Kind::Response => RESP_BUFS,
        Kind::Headers => HDR_BUFS,
    };
    println!("replaying history on one {:?} value, capacity {}:", kind, cap);
    for o in &ops {
        println!("  op: entry {} on {:?}", o.entry, printable(bufs[o.buf as usize]));
    }
    let m = Reuse { kind, cap, depth: ops.len(), canonical: true, ops: all_ops(kind, false) };
    let (results, mut snaps, _) = replay(kind, cap, cap, &ops);
    let s = HState { ops: ops.clone(), snap: snaps.pop().unwrap_or_else(|| initial_snap(cap)), any_complete: results.iter().any(|r| matches!(r, Res::Complete { .. })), canonical: true };
    let mut rc = 0;
    if let Some((p, r, f, w)) = failing_probe(&m, &s) {
        println!("  probe: entry {} on {:?}", p.entry, printable(bufs[p.buf as usize]));
        println!("    on the reused value: {:?}", r);
        println!("    on a {}: {:?}", w, f);
        println!("  VIOLATED: C18");
        rc = 1;
    }
    if let Some(w) = storage_violation(&m, &s) {
        println!("  VIOLATED: C17 {}", w);
        rc = 1;
    }
    if let Some((pa, pb, ra, rb)) = entry_disagreement(&m, &s) {
        println!("  probe buffer {:?}: entry {} gives {}", printable(bufs[pa.buf as usize]), pa.entry, ra);
        println!("                      entry {} gives {}", pb.entry, rb);
        println!("  VIOLATED: C16");
        rc = 1;
    }
    rc
}

/// Re-runs the one model instance a reuse violation came from, single-threaded (deterministic
/// call order even if the subject keeps state between calls). Exit 1 if it has a discovery.
fn rerun_instance(path: &str) -> i32 {
    let text = std::fs::read_to_string(path).expect("replay file");
    let kind = if text.contains("\"message_kind\":\"Request\"") { Kind::Request } else if text.contains("\"message_kind\":\"Headers\"") { Kind::Headers } else { Kind::Response };
    if text.contains("\"model\":\"recycled") {
        let depth = (get_list(&text, "ops").len() / 2).max(2).min(3);
        let reference: Vec<[Res; 2]> = recycle_bufs(kind).iter().map(|b| [one_shot(kind, 0, b), one_shot(kind, 1, b)]).collect();
        let arena = Box::leak(vec![0u8; ARENA].into_boxed_slice()).as_mut_ptr() as usize;
        let model = Recycle { kind, depth, arena, reference: std::sync::Arc::new(reference) };
        let checker = model.checker().threads(1).spawn_dfs().join();
        let d = checker.discoveries();
        println!("single-threaded re-run of the recycled-buffer {:?} depth {} instance: {} discoveries", kind, depth, d.len());
        for (name, path) in d {
            println!("  {}: after {:?}", name, path.last_state().ops);
        }
        return if checker.discoveries().is_empty() { 0 } else { 1 };
    }
    let cap = get_num(&text, "capacity").unwrap_or(1) as usize;
    let depth = get_num(&text, "depth").unwrap_or(3) as usize;
    let canonical = get_num(&text, "canonical").unwrap_or(1) == 1;
    let quick = get_num(&text, "quick").unwrap_or(1) == 1;
    let model = Reuse { kind, cap, depth, canonical, ops: all_ops(kind, quick) };
    let checker = model.checker().threads(1).spawn_dfs().join();
    let d = checker.discoveries();
    println!("single-threaded re-run of the {:?} capacity {} depth {} instance: {} states, {} discoveries", kind, cap, depth, checker.unique_state_count(), d.len());
    for (name, path) in d {
        println!("  {}: after {:?}", name, path.last_state().ops);
    }
    if checker.discoveries().is_empty() { 0 } else { 1 }
}

fn main() {
    let args: Vec<String> = std::env::args().collect();
    if args.len() >= 3 && args[1] == "replay" {
        std::process::exit(replay_file(&args[2]));
    }
    if args.len() >= 3 && args[1] == "instance" {
        std::process::exit(rerun_instance(&args[2]));
    }
    if args.len() < 5 {
        eprintln!("usage: histories <reuse|delivery> <quick|thorough> --out <json> [--prop C18|C17] [--replays dir]");
        std::process::exit(2);
    }
    let quick = args[2] == "quick";
    let out = args.iter().position(|a| a == "--out").map(|i| args[i + 1].clone()).unwrap();
    let prop = args.iter().position(|a| a == "--prop").map(|i| args[i + 1].clone()).unwrap_or_else(|| "C18".into());
    let dir = args.iter().position(|a| a == "--replays").map(|i| args[i + 1].clone()).unwrap_or_else(|| "/verif/replays".into());
    let _ = std::fs::create_dir_all(&dir);
    let t0 = std::time::Instant::now();
    let mut sum = Summary { states: 0, unique: 0, transitions: 0, max_depth: 0, instances: vec![], violations: vec![], samples: vec![] };
    match args[1].as_str() {
        "reuse" => {
            run_reuse(quick, &dir, &prop, &mut sum);
            if prop == "C18" {
                run_recycle(quick, &dir, &mut sum);
            }
        }
        _ => run_delivery(quick, &dir, &mut sum),
    }
    sum.unique = sum.states;
    let machinery: Vec<&String> = sum.violations.iter().filter(|v| v.starts_with("MACHINERY")).collect();
    let body = format!(
        "{{\"engine\":\"histories/{}\",\"states\":{},\"transitions\":{},\"max_depth\":{},\"impl_executions\":{},\"instances\":[{}],\"violations\":[{}],\"samples\":[{}],\"wall_s\":{:.2}}}",
        args[1], sum.states, sum.transitions, sum.max_depth, PROBES.load(std::sync::atomic::Ordering::Relaxed),
        sum.instances.join(","),
        sum.violations.iter().filter(|v| !v.starts_with("MACHINERY")).map(|v| format!("\"{}\"", v)).collect::<Vec<_>>().join(","),
        sum.samples.join(","),
        t0.elapsed().as_secs_f64()
    );
    std::fs::write(&out, body).unwrap();
    if !machinery.is_empty() {
        for m in machinery {
            eprintln!("{}", m);
        }
        std::process::exit(2);
    }
    std::process::exit(if sum.violations.is_empty() { 0 } else { 1 });
}
