//! Reference transducers for the four languages httparse accepts (request head, response head,
//! header block, chunk-size line), written from the property statements C03, C05-C11, C14, C17
//! of /verif/properties.jsonl and RFC 7230 — as explicit byte-at-a-time state machines, not as a
//! port of the implementation's loops and macros.
//!
//! Every machine is `Copy`, so an explorer can keep one state per depth of a symbol tree and share
//! prefixes. All outputs are byte ranges `(start, end)` into the input.
//!
//! No dependency on httparse: this crate is the oracle, the harness binds it to the code by
//! replaying every explored trace on the implementation.

pub mod graph;

/// Byte range `[start, end)` into the input.
pub type Range = (u32, u32);

/// Error kinds (httparse::Error plus the chunk-size error).
#[derive(Clone, Copy, PartialEq, Eq, Debug, Hash, PartialOrd, Ord)]
pub enum Kind {
    HeaderName,
    HeaderValue,
    NewLine,
    Status,
    Token,
    TooManyHeaders,
    Version,
    ChunkSize,
}

/// Outcome of a parse as far as the status goes.
#[derive(Clone, Copy, PartialEq, Eq, Debug, Hash)]
pub enum St {
    Partial,
    Complete(u32),
    Err(Kind),
}

impl St {
    pub fn is_terminal(&self) -> bool {
        !matches!(self, St::Partial)
    }
}

pub const MAXH: usize = 16;

// ------------------------------------------------------------------------------------------
// byte classes, written out from the statements (C05, C12)
// ------------------------------------------------------------------------------------------

/// RFC 7230 tchar.
pub fn is_tchar(b: u8) -> bool {
    matches!(b,
        b'A'..=b'Z' | b'a'..=b'z' | b'0'..=b'9' |
        b'!' | b'#' | b'$' | b'%' | b'&' | b'\'' | b'*' | b'+' |
        b'-' | b'.' | b'^' | b'_' | b'`' | b'|' | b'~')
}

/// Request-target byte: 0x21-0x7E and 0x80-0xFF.
pub fn is_target_byte(b: u8) -> bool {
    (0x21..=0x7E).contains(&b) || b >= 0x80
}

/// Header-value byte: HTAB, 0x20-0x7E, 0x80-0xFF.
pub fn is_value_byte(b: u8) -> bool {
    b == 0x09 || (0x20..=0x7E).contains(&b) || b >= 0x80
}

/// Reason-phrase byte (same set as a value byte).
pub fn is_reason_byte(b: u8) -> bool {
    is_value_byte(b)
}

fn is_ws(b: u8) -> bool {
    b == b' ' || b == b'\t'
}

// ------------------------------------------------------------------------------------------
// incremental UTF-8 validity (RFC 3629)
// ------------------------------------------------------------------------------------------

#[derive(Clone, Copy, PartialEq, Eq, Debug, Hash)]
pub struct Utf8 {
    /// continuation bytes still needed
    pub need: u8,
    /// admissible range of the next byte when `need > 0`
    pub lo: u8,
    pub hi: u8,
    pub bad: bool,
}

impl Utf8 {
    pub const fn new() -> Utf8 {
        Utf8 { need: 0, lo: 0x80, hi: 0xBF, bad: false }
    }
    pub fn step(&mut self, b: u8) {
        if self.bad {
            return;
        }
        if self.need > 0 {
            if b < self.lo || b > self.hi {
                self.bad = true;
                return;
            }
            self.need -= 1;
            self.lo = 0x80;
            self.hi = 0xBF;
            return;
        }
        match b {
            0x00..=0x7F => {}
            0xC2..=0xDF => self.need = 1,
            0xE0 => { self.need = 2; self.lo = 0xA0; }
            0xE1..=0xEC | 0xEE..=0xEF => self.need = 2,
            0xED => { self.need = 2; self.hi = 0x9F; }
            0xF0 => { self.need = 3; self.lo = 0x90; }
            0xF1..=0xF3 => self.need = 3,
            0xF4 => { self.need = 3; self.hi = 0x8F; }
            _ => self.bad = true,
        }
    }
    /// valid and complete
    pub fn ok(&self) -> bool {
        !self.bad && self.need == 0
    }
    /// bytes that close the open sequence (empty if none is open); None if already invalid
    pub fn closing(&self, out: &mut Vec<u8>) -> bool {
        if self.bad {
            return false;
        }
        let mut s = *self;
        while s.need > 0 {
            let b = s.lo;
            out.push(b);
            s.step(b);
        }
        true
    }
}

// ------------------------------------------------------------------------------------------
// header block
// ------------------------------------------------------------------------------------------

/// The four options that reach the header-block grammar.
#[derive(Clone, Copy, PartialEq, Eq, Debug, Hash, Default)]
pub struct HdrOpts {
    pub spaces_after_name: bool,
    pub folding: bool,
    pub space_before_first: bool,
    pub ignore_invalid: bool,
}

impl HdrOpts {
    pub fn from_bits(b: u8) -> HdrOpts {
        HdrOpts {
            spaces_after_name: b & 1 != 0,
            folding: b & 2 != 0,
            space_before_first: b & 4 != 0,
            ignore_invalid: b & 8 != 0,
        }
    }
    pub fn bits(&self) -> u8 {
        self.spaces_after_name as u8
            | (self.folding as u8) << 1
            | (self.space_before_first as u8) << 2
            | (self.ignore_invalid as u8) << 3
    }
}

#[derive(Clone, Copy, PartialEq, Eq, Debug, Hash)]
pub enum HSt {
    /// at the first byte of a line
    LineStart,
    /// CR seen at line start: LF ends the head
    HeadCr,
    /// inside a field name (>= 1 tchar seen)
    Name,
    /// SP/HTAB run between name and colon (spaces-after-name option)
    NameWs,
    /// after the colon, value not started
    AfterColon,
    /// CR seen while the value is still empty
    AfterColonCr,
    /// line end seen with an empty value, folding enabled: need one more byte
    FoldEmpty,
    /// inside the value
    Value,
    /// CR seen inside the value
    ValueCr,
    /// line end seen with a non-empty value, folding enabled: need one more byte
    FoldValue,
    /// dropping an invalid line (ignore-invalid option)
    Skip(Kind),
    SkipCr(Kind),
    Done(u32),
    Fail(Kind),
}

#[derive(Clone, Copy, Debug)]
pub struct Hdr {
    pub opts: HdrOpts,
    pub cap: u32,
    pub st: HSt,
    /// offset of the next byte
    pub pos: u32,
    pub stored: u32,
    pub name: Range,
    pub vstart: u32,
    /// end of the value with trailing SP/HTAB/CR/LF removed
    pub vend: u32,
    pub out: [(Range, Range); MAXH],
    /// FNV-1a over all stored (name, value) ranges, for header counts beyond MAXH
    pub hash: u64,
}

const FNV0: u64 = 0xcbf29ce484222325;
pub fn fnv(h: u64, v: u32) -> u64 {
    let mut h = h;
    for b in v.to_le_bytes() {
        h ^= b as u64;
        h = h.wrapping_mul(0x100000001b3);
    }
    h
}
pub fn hash_header(h: u64, name: Range, value: Range) -> u64 {
    // an empty value has no defined location: hash only its emptiness
    let h = fnv(fnv(h, name.0), name.1);
    if value.0 == value.1 {
        fnv(h, 0xFFFF_FFFF)
    } else {
        fnv(fnv(h, value.0), value.1)
    }
}

impl Hdr {
    pub fn new(opts: HdrOpts, cap: u32, pos: u32) -> Hdr {
        Hdr {
            opts,
            cap,
            st: HSt::LineStart,
            pos,
            stored: 0,
            name: (0, 0),
            vstart: 0,
            vend: 0,
            out: [((0, 0), (0, 0)); MAXH],
            hash: FNV0,
        }
    }

    pub fn status(&self) -> St {
        match self.st {
            HSt::Done(n) => St::Complete(n),
            HSt::Fail(k) => St::Err(k),
            _ => St::Partial,
        }
    }

    /// A complete field line has been received: store it or fail with TooManyHeaders.
    fn store(&mut self, value: Range) -> bool {
        if self.stored >= self.cap {
            self.st = HSt::Fail(Kind::TooManyHeaders);
            return false;
        }
        if (self.stored as usize) < MAXH {
            self.out[self.stored as usize] = (self.name, value);
        }
        self.hash = hash_header(self.hash, self.name, value);
        self.stored += 1;
        true
    }

    /// The line violates the grammar at byte `b` (element `kind`).
    fn invalid(&mut self, b: u8, kind: Kind) {
        if !self.opts.ignore_invalid {
            self.st = HSt::Fail(kind);
        } else {
            self.skip(b, kind);
        }
    }

    fn skip(&mut self, b: u8, kind: Kind) {
        self.st = match b {
            b'\r' => HSt::SkipCr(kind),
            b'\n' => HSt::LineStart,
            0 => HSt::Fail(kind),
            _ => HSt::Skip(kind),
        };
    }

    pub fn step(&mut self, b: u8) {
        let at = self.pos;
        self.pos += 1;
        match self.st {
            HSt::Done(_) | HSt::Fail(_) => {
                // terminal states are absorbing; bytes after the head are not ours
                self.pos -= 1;
            }
            HSt::LineStart => self.line_start(b, at),
            HSt::HeadCr => {
                self.st = if b == b'\n' { HSt::Done(self.pos) } else { HSt::Fail(Kind::NewLine) };
            }
            HSt::Name => {
                if is_tchar(b) {
                    // still the name
                } else if b == b':' {
                    self.name.1 = at;
                    self.st = HSt::AfterColon;
                } else if self.opts.spaces_after_name && is_ws(b) {
                    self.name.1 = at;
                    self.st = HSt::NameWs;
                } else {
                    self.invalid(b, Kind::HeaderName);
                }
            }
            HSt::NameWs => {
                if is_ws(b) {
                } else if b == b':' {
                    self.st = HSt::AfterColon;
                } else {
                    self.invalid(b, Kind::HeaderName);
                }
            }
            HSt::AfterColon => {
                if is_ws(b) {
                } else if is_value_byte(b) {
                    self.vstart = at;
                    self.vend = at + 1;
                    self.st = HSt::Value;
                } else if b == b'\r' {
                    self.st = HSt::AfterColonCr;
                } else if b == b'\n' {
                    self.eol_empty();
                } else {
                    self.invalid(b, Kind::HeaderValue);
                }
            }
            HSt::AfterColonCr => {
                if b == b'\n' {
                    self.eol_empty();
                } else {
                    // a CR that is not followed by LF is fatal in every configuration
                    self.st = HSt::Fail(Kind::HeaderValue);
                }
            }
            HSt::FoldEmpty => {
                if is_ws(b) {
                    // continuation line: still looking for the first value byte
                    self.st = HSt::AfterColon;
                } else if self.store((at, at)) {
                    self.line_start(b, at);
                }
            }
            HSt::Value => {
                if is_value_byte(b) {
                    if !is_ws(b) {
                        self.vend = at + 1;
                    }
                } else if b == b'\r' {
                    self.st = HSt::ValueCr;
                } else if b == b'\n' {
                    self.eol_value();
                } else {
                    self.invalid(b, Kind::HeaderValue);
                }
            }
            HSt::ValueCr => {
                if b == b'\n' {
                    self.eol_value();
                } else {
                    self.st = HSt::Fail(Kind::HeaderValue);
                }
            }
            HSt::FoldValue => {
                if is_ws(b) {
                    // continuation line: the line break and this byte stay inside the value
                    self.st = HSt::Value;
                } else if self.store((self.vstart, self.vend)) {
                    self.line_start(b, at);
                }
            }
            HSt::Skip(kind) => self.skip(b, kind),
            HSt::SkipCr(kind) => {
                self.st = if b == b'\n' { HSt::LineStart } else { HSt::Fail(kind) };
            }
        }
    }

    fn line_start(&mut self, b: u8, at: u32) {
        if b == b'\r' {
            self.st = HSt::HeadCr;
        } else if b == b'\n' {
            self.st = HSt::Done(at + 1);
        } else if is_tchar(b) {
            self.name = (at, at + 1);
            self.st = HSt::Name;
        } else if self.opts.space_before_first && self.stored == 0 && is_ws(b) {
            // disregarded: the rest of the line is judged as if it started here
            self.st = HSt::LineStart;
        } else {
            self.invalid(b, Kind::HeaderName);
        }
    }

    fn eol_empty(&mut self) {
        if self.opts.folding {
            self.st = HSt::FoldEmpty;
        } else if self.store((self.pos, self.pos)) {
            self.st = HSt::LineStart;
        }
    }

    fn eol_value(&mut self) {
        if self.opts.folding {
            self.st = HSt::FoldValue;
        } else if self.store((self.vstart, self.vend)) {
            self.st = HSt::LineStart;
        }
    }

    /// A suffix after which this (non-terminal) state is Complete, or None when the only thing
    /// standing in the way is header capacity (the exception C11 states).
    pub fn completion(&self, out: &mut Vec<u8>) -> bool {
        let in_line = !matches!(
            self.st,
            HSt::LineStart | HSt::HeadCr | HSt::Skip(_) | HSt::SkipCr(_) | HSt::Done(_) | HSt::Fail(_)
        );
        if in_line && self.stored >= self.cap {
            return false;
        }
        let s: &[u8] = match self.st {
            HSt::LineStart => b"\r\n",
            HSt::HeadCr => b"\n",
            HSt::Name | HSt::NameWs => b":\r\n\r\n",
            HSt::AfterColon | HSt::Value => b"\r\n\r\n",
            HSt::AfterColonCr | HSt::ValueCr => b"\n\r\n",
            HSt::FoldEmpty | HSt::FoldValue => b"\r\n",
            HSt::Skip(_) => b"\r\n\r\n",
            HSt::SkipCr(_) => b"\n\r\n",
            HSt::Done(_) | HSt::Fail(_) => return false,
        };
        out.extend_from_slice(s);
        true
    }

    /// Control state with everything positional removed (for the abstract-graph search).
    pub fn abstract_key(&self) -> (HSt, u32) {
        let st = match self.st {
            HSt::Done(_) => HSt::Done(0),
            s => s,
        };
        (st, self.stored.min(self.cap + 1).min(3))
    }
}

// ------------------------------------------------------------------------------------------
// request head
// ------------------------------------------------------------------------------------------

#[derive(Clone, Copy, PartialEq, Eq, Debug, Hash)]
pub enum RSt {
    /// leading empty lines
    Lead,
    LeadCr,
    /// in the method (>= 1 tchar)
    Method,
    /// SP run after the method (multi-space) or the single SP just consumed
    Sp1,
    /// in the target (>= 1 byte)
    Target,
    /// SP run after the target (multi-space)
    Sp2,
    /// `i` bytes of "HTTP/1.x" matched
    Version(u8),
    /// version complete, expecting the line end
    Eol,
    EolCr,
    Headers,
    Fail(Kind),
}

#[derive(Clone, Copy, Debug)]
pub struct Req {
    pub multi_space: bool,
    pub st: RSt,
    pub pos: u32,
    pub method: Range,
    pub path: Range,
    pub version: u8,
    pub utf8: Utf8,
    pub hdr: Hdr,
}

const VERSION_LIT: &[u8; 7] = b"HTTP/1.";

impl Req {
    /// `hopts` must only carry the options that reach request header parsing
    /// (space_before_first, ignore_invalid).
    pub fn new(multi_space: bool, hopts: HdrOpts, cap: u32) -> Req {
        Req {
            multi_space,
            st: RSt::Lead,
            pos: 0,
            method: (0, 0),
            path: (0, 0),
            version: 0,
            utf8: Utf8::new(),
            hdr: Hdr::new(hopts, cap, 0),
        }
    }

    pub fn status(&self) -> St {
        match self.st {
            RSt::Fail(k) => St::Err(k),
            RSt::Headers => self.hdr.status(),
            _ => St::Partial,
        }
    }

    pub fn step(&mut self, b: u8) {
        if let RSt::Fail(_) = self.st {
            return;
        }
        if self.st == RSt::Headers {
            self.hdr.step(b);
            return;
        }
        let at = self.pos;
        self.pos += 1;
        match self.st {
            RSt::Lead => match b {
                b'\r' => self.st = RSt::LeadCr,
                b'\n' => {}
                _ => self.method_first(b, at),
            },
            RSt::LeadCr => {
                self.st = if b == b'\n' { RSt::Lead } else { RSt::Fail(Kind::NewLine) };
            }
            RSt::Method => {
                if is_tchar(b) {
                } else if b == b' ' {
                    self.method.1 = at;
                    self.path = (at + 1, at + 1);
                    self.st = RSt::Sp1;
                } else {
                    self.st = RSt::Fail(Kind::Token);
                }
            }
            RSt::Sp1 => {
                if b == b' ' && self.multi_space {
                    self.path = (at + 1, at + 1);
                } else if is_target_byte(b) {
                    self.path = (at, at + 1);
                    self.utf8 = Utf8::new();
                    self.utf8.step(b);
                    self.st = RSt::Target;
                } else {
                    // empty target, or a byte that can neither be target nor delimiter
                    self.st = RSt::Fail(Kind::Token);
                }
            }
            RSt::Target => {
                if is_target_byte(b) {
                    self.utf8.step(b);
                } else if b == b' ' {
                    self.path.1 = at;
                    self.st = if self.utf8.ok() { RSt::Sp2 } else { RSt::Fail(Kind::Token) };
                } else {
                    self.st = RSt::Fail(Kind::Token);
                }
            }
            RSt::Sp2 => {
                if b == b' ' && self.multi_space {
                } else {
                    self.version_byte(0, b);
                }
            }
            RSt::Version(i) => self.version_byte(i, b),
            RSt::Eol => match b {
                b'\r' => self.st = RSt::EolCr,
                b'\n' => self.enter_headers(),
                _ => self.st = RSt::Fail(Kind::NewLine),
            },
            RSt::EolCr => {
                if b == b'\n' {
                    self.enter_headers();
                } else {
                    self.st = RSt::Fail(Kind::NewLine);
                }
            }
            RSt::Headers | RSt::Fail(_) => unreachable!(),
        }
    }

    fn method_first(&mut self, b: u8, at: u32) {
        if is_tchar(b) {
            self.method = (at, at + 1);
            self.st = RSt::Method;
        } else {
            self.st = RSt::Fail(Kind::Token);
        }
    }

    fn version_byte(&mut self, i: u8, b: u8) {
        if i < 7 {
            self.st = if b == VERSION_LIT[i as usize] { RSt::Version(i + 1) } else { RSt::Fail(Kind::Version) };
        } else {
            match b {
                b'0' | b'1' => {
                    self.version = b - b'0';
                    self.st = RSt::Eol;
                }
                _ => self.st = RSt::Fail(Kind::Version),
            }
        }
    }

    fn enter_headers(&mut self) {
        self.hdr.pos = self.pos;
        self.st = RSt::Headers;
    }

    pub fn completion(&self, out: &mut Vec<u8>) -> bool {
        match self.st {
            RSt::Lead => out.extend_from_slice(b"A / HTTP/1.1\r\n\r\n"),
            RSt::LeadCr => out.extend_from_slice(b"\nA / HTTP/1.1\r\n\r\n"),
            RSt::Method => out.extend_from_slice(b" / HTTP/1.1\r\n\r\n"),
            RSt::Sp1 => out.extend_from_slice(b"/ HTTP/1.1\r\n\r\n"),
            RSt::Target => {
                // UTF-8 validity of the target is judged at its SP (the other stated exception)
                if !self.utf8.closing(out) {
                    return false;
                }
                out.extend_from_slice(b" HTTP/1.1\r\n\r\n");
            }
            RSt::Sp2 => out.extend_from_slice(b"HTTP/1.1\r\n\r\n"),
            RSt::Version(i) => {
                out.extend_from_slice(&b"HTTP/1.1"[i as usize..]);
                out.extend_from_slice(b"\r\n\r\n");
            }
            RSt::Eol => out.extend_from_slice(b"\r\n\r\n"),
            RSt::EolCr => out.extend_from_slice(b"\n\r\n"),
            RSt::Headers => return self.hdr.completion(out),
            RSt::Fail(_) => return false,
        }
        true
    }

    pub fn abstract_key(&self) -> (RSt, Utf8, (HSt, u32)) {
        let u = if self.st == RSt::Target { self.utf8 } else { Utf8::new() };
        (self.st, u, if self.st == RSt::Headers { self.hdr.abstract_key() } else { (HSt::LineStart, 0) })
    }
}

// ------------------------------------------------------------------------------------------
// response head
// ------------------------------------------------------------------------------------------

#[derive(Clone, Copy, PartialEq, Eq, Debug, Hash)]
pub enum PSt {
    Lead,
    LeadCr,
    Version(u8),
    /// version complete: exactly one SP must follow
    VersionSp,
    /// SP run before the code (multi-space) / expecting first digit
    Code(u8),
    /// three digits seen
    AfterCode,
    AfterCodeCr,
    /// SP run before the reason (multi-space)
    ReasonSp,
    Reason,
    ReasonCr,
    Headers,
    Fail(Kind),
}

#[derive(Clone, Copy, Debug)]
pub struct Resp {
    pub multi_space: bool,
    pub st: PSt,
    pub pos: u32,
    pub version: u8,
    pub code: u16,
    /// None: the static empty string (reason absent, or it contained a byte >= 0x80)
    pub reason: Option<Range>,
    rstart: u32,
    obs: bool,
    pub hdr: Hdr,
}

impl Resp {
    pub fn new(multi_space: bool, hopts: HdrOpts, cap: u32) -> Resp {
        Resp {
            multi_space,
            st: PSt::Lead,
            pos: 0,
            version: 0,
            code: 0,
            reason: None,
            rstart: 0,
            obs: false,
            hdr: Hdr::new(hopts, cap, 0),
        }
    }

    pub fn status(&self) -> St {
        match self.st {
            PSt::Fail(k) => St::Err(k),
            PSt::Headers => self.hdr.status(),
            _ => St::Partial,
        }
    }

    pub fn step(&mut self, b: u8) {
        if let PSt::Fail(_) = self.st {
            return;
        }
        if self.st == PSt::Headers {
            self.hdr.step(b);
            return;
        }
        let at = self.pos;
        self.pos += 1;
        match self.st {
            PSt::Lead => match b {
                b'\r' => self.st = PSt::LeadCr,
                b'\n' => {}
                _ => self.version_byte(0, b),
            },
            PSt::LeadCr => {
                self.st = if b == b'\n' { PSt::Lead } else { PSt::Fail(Kind::NewLine) };
            }
            PSt::Version(i) => self.version_byte(i, b),
            PSt::VersionSp => {
                self.st = if b == b' ' { PSt::Code(0) } else { PSt::Fail(Kind::Version) };
            }
            PSt::Code(i) => {
                if i == 0 && b == b' ' && self.multi_space {
                } else if b.is_ascii_digit() {
                    let d = (b - b'0') as u16;
                    self.code = if i == 0 { d } else { self.code * 10 + d };
                    self.st = if i == 2 { PSt::AfterCode } else { PSt::Code(i + 1) };
                } else {
                    self.st = PSt::Fail(Kind::Status);
                }
            }
            PSt::AfterCode => match b {
                b' ' => {
                    self.rstart = at + 1;
                    self.obs = false;
                    self.st = if self.multi_space { PSt::ReasonSp } else { PSt::Reason };
                }
                b'\r' => self.st = PSt::AfterCodeCr,
                b'\n' => {
                    self.reason = None;
                    self.enter_headers();
                }
                _ => self.st = PSt::Fail(Kind::Status),
            },
            PSt::AfterCodeCr => {
                if b == b'\n' {
                    self.reason = None;
                    self.enter_headers();
                } else {
                    self.st = PSt::Fail(Kind::Status);
                }
            }
            PSt::ReasonSp => {
                if b == b' ' {
                    self.rstart = at + 1;
                } else {
                    self.st = PSt::Reason;
                    self.reason_byte(b, at);
                }
            }
            PSt::Reason => self.reason_byte(b, at),
            PSt::ReasonCr => {
                if b == b'\n' {
                    self.enter_headers();
                } else {
                    self.st = PSt::Fail(Kind::Status);
                }
            }
            PSt::Headers | PSt::Fail(_) => unreachable!(),
        }
    }

    fn reason_byte(&mut self, b: u8, at: u32) {
        if b == b'\r' {
            self.reason = if self.obs { None } else { Some((self.rstart, at)) };
            self.st = PSt::ReasonCr;
        } else if b == b'\n' {
            self.reason = if self.obs { None } else { Some((self.rstart, at)) };
            self.enter_headers();
        } else if is_reason_byte(b) {
            if b >= 0x80 {
                self.obs = true;
            }
        } else {
            self.st = PSt::Fail(Kind::Status);
        }
    }

    fn version_byte(&mut self, i: u8, b: u8) {
        if i < 7 {
            self.st = if b == VERSION_LIT[i as usize] { PSt::Version(i + 1) } else { PSt::Fail(Kind::Version) };
        } else {
            match b {
                b'0' | b'1' => {
                    self.version = b - b'0';
                    self.st = PSt::VersionSp;
                }
                _ => self.st = PSt::Fail(Kind::Version),
            }
        }
    }

    fn enter_headers(&mut self) {
        self.hdr.pos = self.pos;
        self.st = PSt::Headers;
    }

    pub fn completion(&self, out: &mut Vec<u8>) -> bool {
        match self.st {
            PSt::Lead => out.extend_from_slice(b"HTTP/1.1 200\r\n\r\n"),
            PSt::LeadCr => out.extend_from_slice(b"\nHTTP/1.1 200\r\n\r\n"),
            PSt::Version(i) => {
                out.extend_from_slice(&b"HTTP/1.1"[i as usize..]);
                out.extend_from_slice(b" 200\r\n\r\n");
            }
            PSt::VersionSp => out.extend_from_slice(b" 200\r\n\r\n"),
            PSt::Code(i) => {
                out.extend_from_slice(&b"200"[i as usize..]);
                out.extend_from_slice(b"\r\n\r\n");
            }
            PSt::AfterCode | PSt::ReasonSp | PSt::Reason => out.extend_from_slice(b"\r\n\r\n"),
            PSt::AfterCodeCr | PSt::ReasonCr => out.extend_from_slice(b"\n\r\n"),
            PSt::Headers => return self.hdr.completion(out),
            PSt::Fail(_) => return false,
        }
        true
    }

    pub fn abstract_key(&self) -> (PSt, bool, (HSt, u32)) {
        let obs = matches!(self.st, PSt::Reason | PSt::ReasonCr) && self.obs;
        (self.st, obs, if self.st == PSt::Headers { self.hdr.abstract_key() } else { (HSt::LineStart, 0) })
    }
}

// ------------------------------------------------------------------------------------------
// chunk size
// ------------------------------------------------------------------------------------------

#[derive(Clone, Copy, PartialEq, Eq, Debug, Hash)]
pub enum CSt {
    /// `n` hex digits seen so far (0..=16)
    Digits(u8),
    /// SP/HTAB after the digits
    Ws,
    /// after ';'
    Ext,
    /// CR seen: LF must follow
    Cr,
    Done(u32),
    Fail,
}

#[derive(Clone, Copy, Debug)]
pub struct Chunk {
    pub st: CSt,
    pub pos: u32,
    /// exact value, computed wide so that it cannot wrap
    pub size: u128,
}

impl Chunk {
    pub fn new() -> Chunk {
        Chunk { st: CSt::Digits(0), pos: 0, size: 0 }
    }
    pub fn status(&self) -> St {
        match self.st {
            CSt::Done(n) => St::Complete(n),
            CSt::Fail => St::Err(Kind::ChunkSize),
            _ => St::Partial,
        }
    }
    pub fn step(&mut self, b: u8) {
        if matches!(self.st, CSt::Done(_) | CSt::Fail) {
            return;
        }
        self.pos += 1;
        self.st = match self.st {
            CSt::Digits(n) => {
                if b.is_ascii_hexdigit() {
                    if n >= 16 {
                        CSt::Fail
                    } else {
                        self.size = self.size * 16 + (b as char).to_digit(16).unwrap() as u128;
                        CSt::Digits(n + 1)
                    }
                } else if n == 0 {
                    // no digit at all
                    CSt::Fail
                } else {
                    match b {
                        b' ' | b'\t' => CSt::Ws,
                        b';' => CSt::Ext,
                        b'\r' => CSt::Cr,
                        _ => CSt::Fail,
                    }
                }
            }
            CSt::Ws => match b {
                b' ' | b'\t' => CSt::Ws,
                b';' => CSt::Ext,
                b'\r' => CSt::Cr,
                _ => CSt::Fail,
            },
            CSt::Ext => match b {
                b'\r' => CSt::Cr,
                _ => CSt::Ext,
            },
            CSt::Cr => {
                if b == b'\n' {
                    CSt::Done(self.pos)
                } else {
                    CSt::Fail
                }
            }
            CSt::Done(_) | CSt::Fail => unreachable!(),
        };
    }
    pub fn completion(&self, out: &mut Vec<u8>) -> bool {
        match self.st {
            CSt::Digits(0) => out.extend_from_slice(b"0\r\n"),
            CSt::Digits(_) | CSt::Ws | CSt::Ext => out.extend_from_slice(b"\r\n"),
            CSt::Cr => out.extend_from_slice(b"\n"),
            CSt::Done(_) | CSt::Fail => return false,
        }
        true
    }
    pub fn abstract_key(&self) -> CSt {
        match self.st {
            CSt::Done(_) => CSt::Done(0),
            s => s,
        }
    }
}

impl Default for Chunk {
    fn default() -> Self {
        Chunk::new()
    }
}

// ------------------------------------------------------------------------------------------
// one-shot helpers
// ------------------------------------------------------------------------------------------

pub fn run_hdr(opts: HdrOpts, cap: u32, input: &[u8]) -> Hdr {
    let mut m = Hdr::new(opts, cap, 0);
    for &b in input {
        m.step(b);
        if m.status().is_terminal() {
            break;
        }
    }
    m
}

pub fn run_req(multi: bool, hopts: HdrOpts, cap: u32, input: &[u8]) -> Req {
    let mut m = Req::new(multi, hopts, cap);
    for &b in input {
        m.step(b);
        if m.status().is_terminal() {
            break;
        }
    }
    m
}

pub fn run_resp(multi: bool, hopts: HdrOpts, cap: u32, input: &[u8]) -> Resp {
    let mut m = Resp::new(multi, hopts, cap);
    for &b in input {
        m.step(b);
        if m.status().is_terminal() {
            break;
        }
    }
    m
}

pub fn run_chunk(input: &[u8]) -> Chunk {
    let mut m = Chunk::new();
    for &b in input {
        m.step(b);
        if m.status().is_terminal() {
            break;
        }
    }
    m
}

#[cfg(test)]
mod tests {
    use super::*;

    #[test]
    fn basic_request() {
        let m = run_req(false, HdrOpts::default(), 4, b"GET /x HTTP/1.1\r\nHost: a b \r\nX:\r\n\r\nbody");
        assert_eq!(m.status(), St::Complete(35));
        assert_eq!(m.method, (0, 3));
        assert_eq!(m.path, (4, 6));
        assert_eq!(m.version, 1);
        assert_eq!(m.hdr.stored, 2);
        assert_eq!(m.hdr.out[0], ((17, 21), (23, 26)));
    }

    #[test]
    fn fold() {
        let o = HdrOpts { folding: true, ..Default::default() };
        let m = run_hdr(o, 4, b"a: b\r\n c \r\n\r\n");
        assert_eq!(m.status(), St::Complete(13));
        assert_eq!(m.out[0], ((0, 1), (3, 8)));
    }

    #[test]
    fn chunk() {
        assert_eq!(run_chunk(b"ff\r\n").status(), St::Complete(4));
        assert_eq!(run_chunk(b"ff\r\n").size, 255);
        assert_eq!(run_chunk(b"\r\n").status(), St::Err(Kind::ChunkSize));
        assert_eq!(run_chunk(b"fffffffffffffffff\r\n").status(), St::Err(Kind::ChunkSize));
    }
}
