//! Exhaustive search of a transducer's abstract state graph (control state with all positional
//! data removed), over all 256 input bytes.
//!
//! Positions never influence a transition (they only flow into outputs), so two concrete states
//! with the same abstract key have the same futures and one representative per key suffices.
//!
//! Decided here, about the *model* (a failure is a defect of the model, never a verdict about the
//! code): terminal states are absorbing; from every non-terminal state for which `completion`
//! offers a suffix, that suffix leads to Complete; every non-terminal state that cannot reach
//! Complete at all (EF Complete fails) is one for which `completion` declines — i.e. one of the
//! two exceptions C11 states (undecodable target, header capacity).

use crate::St;
use std::collections::{HashMap, VecDeque};
use std::fmt::Debug;
use std::hash::Hash;

pub trait Machine: Clone {
    type Key: Hash + Eq + Clone + Debug;
    fn step(&mut self, b: u8);
    fn status(&self) -> St;
    fn key(&self) -> Self::Key;
    fn completion(&self, out: &mut Vec<u8>) -> bool;
}

#[derive(Debug, Default, Clone)]
pub struct GraphReport {
    pub states: u64,
    pub transitions: u64,
    pub nonterminal: u64,
    pub terminal: u64,
    /// non-terminal states whose completion suffix was run and gave Complete
    pub completions_ok: u64,
    /// non-terminal states for which completion declines (the stated exceptions)
    pub completions_declined: u64,
    /// of those, states from which Complete is unreachable in the graph
    pub dead_states: u64,
    pub errors: Vec<String>,
}

pub fn explore<M: Machine>(init: M) -> GraphReport {
    let mut rep = GraphReport::default();
    let mut index: HashMap<M::Key, usize> = HashMap::new();
    let mut nodes: Vec<M> = Vec::new();
    let mut succ: Vec<Vec<usize>> = Vec::new();
    let mut queue = VecDeque::new();
    index.insert(init.key(), 0);
    nodes.push(init);
    succ.push(Vec::new());
    queue.push_back(0usize);
    while let Some(i) = queue.pop_front() {
        let m = nodes[i].clone();
        let term = m.status().is_terminal();
        for b in 0..=255u8 {
            let mut n = m.clone();
            n.step(b);
            rep.transitions += 1;
            if term {
                if n.status() != m.status() {
                    rep.errors.push(format!("terminal state {:?} not absorbing on byte {:#04x}", m.key(), b));
                }
                continue;
            }
            let k = n.key();
            let j = match index.get(&k) {
                Some(&j) => j,
                None => {
                    let j = nodes.len();
                    index.insert(k, j);
                    nodes.push(n);
                    succ.push(Vec::new());
                    queue.push_back(j);
                    j
                }
            };
            if !succ[i].contains(&j) {
                succ[i].push(j);
            }
        }
    }
    rep.states = nodes.len() as u64;
    // backward reachability from Complete states
    let n = nodes.len();
    let mut pred: Vec<Vec<usize>> = vec![Vec::new(); n];
    for (i, ss) in succ.iter().enumerate() {
        for &j in ss {
            pred[j].push(i);
        }
    }
    let mut can = vec![false; n];
    let mut q = VecDeque::new();
    for (i, m) in nodes.iter().enumerate() {
        if matches!(m.status(), St::Complete(_)) {
            can[i] = true;
            q.push_back(i);
        }
    }
    while let Some(j) = q.pop_front() {
        for &i in &pred[j] {
            if !can[i] {
                can[i] = true;
                q.push_back(i);
            }
        }
    }
    for (i, m) in nodes.iter().enumerate() {
        if m.status().is_terminal() {
            rep.terminal += 1;
            continue;
        }
        rep.nonterminal += 1;
        let mut suffix = Vec::new();
        if m.completion(&mut suffix) {
            let mut r = m.clone();
            for &b in &suffix {
                r.step(b);
            }
            if matches!(r.status(), St::Complete(_)) {
                rep.completions_ok += 1;
            } else {
                rep.errors.push(format!(
                    "completion {:?} of state {:?} gives {:?}",
                    String::from_utf8_lossy(&suffix),
                    m.key(),
                    r.status()
                ));
            }
        } else {
            rep.completions_declined += 1;
        }
        if !can[i] {
            rep.dead_states += 1;
            let mut s = Vec::new();
            if m.completion(&mut s) {
                rep.errors.push(format!("state {:?} cannot reach Complete but offers a completion", m.key()));
            }
        }
    }
    rep
}

impl Machine for crate::Hdr {
    type Key = (crate::HSt, u32);
    fn step(&mut self, b: u8) {
        crate::Hdr::step(self, b)
    }
    fn status(&self) -> St {
        crate::Hdr::status(self)
    }
    fn key(&self) -> Self::Key {
        self.abstract_key()
    }
    fn completion(&self, out: &mut Vec<u8>) -> bool {
        crate::Hdr::completion(self, out)
    }
}

impl Machine for crate::Req {
    type Key = (crate::RSt, crate::Utf8, (crate::HSt, u32));
    fn step(&mut self, b: u8) {
        crate::Req::step(self, b)
    }
    fn status(&self) -> St {
        crate::Req::status(self)
    }
    fn key(&self) -> Self::Key {
        self.abstract_key()
    }
    fn completion(&self, out: &mut Vec<u8>) -> bool {
        crate::Req::completion(self, out)
    }
}

impl Machine for crate::Resp {
    type Key = (crate::PSt, bool, (crate::HSt, u32));
    fn step(&mut self, b: u8) {
        crate::Resp::step(self, b)
    }
    fn status(&self) -> St {
        crate::Resp::status(self)
    }
    fn key(&self) -> Self::Key {
        self.abstract_key()
    }
    fn completion(&self, out: &mut Vec<u8>) -> bool {
        crate::Resp::completion(self, out)
    }
}

impl Machine for crate::Chunk {
    type Key = crate::CSt;
    fn step(&mut self, b: u8) {
        crate::Chunk::step(self, b)
    }
    fn status(&self) -> St {
        crate::Chunk::status(self)
    }
    fn key(&self) -> Self::Key {
        self.abstract_key()
    }
    fn completion(&self, out: &mut Vec<u8>) -> bool {
        crate::Chunk::completion(self, out)
    }
}

#[cfg(test)]
mod tests {
    use super::*;
    use crate::*;

    #[test]
    fn graphs_are_sound() {
        for bits in 0..16u8 {
            for cap in 0..3 {
                let r = explore(Hdr::new(HdrOpts::from_bits(bits), cap, 0));
                assert!(r.errors.is_empty(), "{:?}", r.errors);
                let r = explore(Resp::new(bits & 1 != 0, HdrOpts::from_bits(bits), cap));
                assert!(r.errors.is_empty(), "{:?}", r.errors);
            }
        }
        for multi in [false, true] {
            let r = explore(Req::new(multi, HdrOpts::default(), 1));
            assert!(r.errors.is_empty(), "{:?}", r.errors);
            assert!(r.dead_states > 0); // undecodable targets
        }
        let r = explore(Chunk::new());
        assert!(r.errors.is_empty(), "{:?}", r.errors);
        assert_eq!(r.dead_states, 0);
    }
}
