//! Copies the subject's NEON scanner source next to a software emulation of the intrinsics it
//! uses, so that the *real* neon.rs is compiled and executed on this x86-64 host.
//!
//! Exactly one thing is replaced: the import `use core::arch::aarch64::*;` becomes
//! `use crate::neon_emu::*;`. The unit tests at the end of the file (cfg(test), they reference
//! crate-private tables) are cut off. Anything unexpected fails the build loudly.

use std::env;
use std::fs;
use std::path::PathBuf;

fn main() {
    println!("cargo:rerun-if-env-changed=HTTPARSE_REPO");
    let repo = env::var("HTTPARSE_REPO").unwrap_or_else(|_| "/repo".to_string());
    let src = PathBuf::from(&repo).join("src/simd/neon.rs");
    println!("cargo:rerun-if-changed={}", src.display());
    let text = fs::read_to_string(&src).unwrap_or_else(|e| panic!("cannot read {}: {}", src.display(), e));
    let import = "use core::arch::aarch64::*;";
    assert_eq!(text.matches(import).count(), 1, "expected exactly one `{}` in {}", import, src.display());
    let text = text.replace(import, "use crate::neon_emu::*;");
    let cut = text.find("#[test]").unwrap_or(text.len());
    let body = &text[..cut];
    for needed in ["pub fn match_header_name_vectored", "pub fn match_header_value_vectored", "pub fn match_uri_vectored"] {
        assert!(body.contains(needed), "{} not found in {}", needed, src.display());
    }
    let out = PathBuf::from(env::var("OUT_DIR").unwrap()).join("neon_subject.rs");
    fs::write(&out, body).unwrap();
}
