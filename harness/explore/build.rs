fn main(){}
