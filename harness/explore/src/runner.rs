//! Parallel task runner with crash journal, watchdog and wall cap.

use crate::call::{Backend, Caller};
use crate::journal::Journal;
use crate::oracle::{Checker, Stats, Violation};
use std::sync::atomic::{AtomicBool, AtomicUsize, Ordering};
use std::sync::Arc;
use std::time::{Duration, Instant};

pub type TaskFn = Box<dyn Fn(&mut Checker) + Send + Sync>;

pub struct Phase {
    pub label: String,
    pub backend: Backend,
    pub tasks: Vec<TaskFn>,
}

#[derive(Debug, Clone)]
pub struct PhaseReport {
    pub label: String,
    pub backend: &'static str,
    pub tasks: usize,
    pub done: usize,
    pub nodes: u64,
    pub secs: f64,
    pub skipped: bool,
}

pub struct RunResult {
    pub stats: Stats,
    pub violations: Vec<Violation>,
    pub nviol: u64,
    pub phases: Vec<PhaseReport>,
    pub exhaustive: bool,
    pub calls: u64,
}

pub struct RunCfg {
    pub prop: String,
    pub armed: u32,
    pub threads: usize,
    pub wall_cap: Duration,
    pub max_input: usize,
    pub max_headers: usize,
}

pub fn spawn_watchdog(journal: Arc<Journal>, threads: usize, stop: Arc<AtomicBool>) {
    std::thread::spawn(move || {
        let mut last: Vec<(u64, Instant)> = (0..threads).map(|_| (0, Instant::now())).collect();
        while !stop.load(Ordering::Relaxed) {
            std::thread::sleep(Duration::from_millis(500));
            for i in 0..threads {
                let (seq, in_call) = journal.progress(i);
                if seq != last[i].0 || in_call == 0 {
                    last[i] = (seq, Instant::now());
                } else if last[i].1.elapsed() > Duration::from_secs(20) {
                    println!("WATCHDOG-HANG slot={}", i);
                    std::process::abort();
                }
            }
        }
    });
}

pub fn run(cfg: &RunCfg, journal: Arc<Journal>, phases: Vec<Phase>) -> RunResult {
    let start = Instant::now();
    let mut checkers: Vec<Checker> = (0..cfg.threads)
        .map(|i| Checker::new(&cfg.prop, cfg.armed, Caller::new(journal.slot(i), cfg.max_input, cfg.max_headers)))
        .collect();
    let stop = Arc::new(AtomicBool::new(false));
    spawn_watchdog(journal.clone(), cfg.threads, stop.clone());
    let mut reports = Vec::new();
    let mut exhaustive = true;
    for (phase_index, ph) in phases.into_iter().enumerate() {
        let over = start.elapsed() > cfg.wall_cap;
        let found: u64 = checkers.iter().map(|c| c.nviol).sum();
        if over || found >= 8 {
            if over {
                exhaustive = false;
            }
            reports.push(PhaseReport { label: ph.label, backend: ph.backend.name(), tasks: ph.tasks.len(), done: 0, nodes: 0, secs: 0.0, skipped: true });
            continue;
        }
        let t0 = Instant::now();
        let nodes0: u64 = checkers.iter().map(|c| c.stats.nodes).sum();
        if !ph.backend.force() {
            // backend not available on this CPU / build: recorded, not silently dropped
            reports.push(PhaseReport { label: format!("{} (backend unavailable)", ph.label), backend: ph.backend.name(), tasks: ph.tasks.len(), done: 0, nodes: 0, secs: 0.0, skipped: true });
            exhaustive = false;
            continue;
        }
        let next = AtomicUsize::new(0);
        let done = AtomicUsize::new(0);
        let tasks = &ph.tasks;
        let deadline = start + cfg.wall_cap;
        std::thread::scope(|s| {
            for ck in checkers.iter_mut() {
                let next = &next;
                let done = &done;
                s.spawn(move || loop {
                    if ck.full() || Instant::now() > deadline {
                        break;
                    }
                    let i = next.fetch_add(1, Ordering::Relaxed);
                    if i >= tasks.len() {
                        break;
                    }
                    ck.task_id = (phase_index as u32, i as u32);
                    (tasks[i])(ck);
                    done.fetch_add(1, Ordering::Relaxed);
                });
            }
        });
        let d = done.load(Ordering::Relaxed);
        let found: u64 = checkers.iter().map(|c| c.nviol).sum();
        if d < tasks.len() && found == 0 {
            exhaustive = false;
        }
        let nodes1: u64 = checkers.iter().map(|c| c.stats.nodes).sum();
        reports.push(PhaseReport {
            label: ph.label,
            backend: ph.backend.name(),
            tasks: tasks.len(),
            done: d,
            nodes: nodes1 - nodes0,
            secs: t0.elapsed().as_secs_f64(),
            skipped: false,
        });
    }
    Backend::Native.force();
    stop.store(true, Ordering::Relaxed);
    let mut stats = Stats::default();
    let mut violations = Vec::new();
    let mut nviol = 0;
    let mut calls = 0;
    for c in &checkers {
        stats.merge(&c.stats);
        nviol += c.nviol;
        calls += c.caller.calls;
        for v in &c.violations {
            if violations.len() < 8 {
                violations.push(v.clone());
            }
        }
    }
    RunResult { stats, violations, nviol, phases: reports, exhaustive, calls }
}
