//! Uniform view of the four reference transducers.

use crate::call::{Entry, C_FOLDING, C_IGNORE_REQ, C_IGNORE_RESP, C_MULTI_REQ, C_MULTI_RESP, C_SPACES_AFTER_NAME, C_SPACE_BEFORE_FIRST};
use refmodel::{Chunk, Hdr, HdrOpts, Range, Req, Resp, St, MAXH};

#[derive(Clone, Copy, Debug)]
pub struct ModelOut {
    pub st: St,
    pub method: Range,
    pub path: Range,
    pub version: u8,
    pub code: u16,
    /// None: the static empty string
    pub reason: Option<Range>,
    pub nh: u32,
    pub hdrs: [(Range, Range); MAXH],
    pub hash: u64,
    pub size: u128,
}

#[derive(Clone, Copy, Debug)]
pub enum Model {
    Req(Req),
    Resp(Resp),
    Hdr(Hdr),
    Chunk(Chunk),
}

/// Header options that reach the header grammar for a request under config bits `cfg`.
pub fn req_hdr_opts(cfg: u8) -> HdrOpts {
    HdrOpts {
        spaces_after_name: false,
        folding: false,
        space_before_first: cfg & C_SPACE_BEFORE_FIRST != 0,
        ignore_invalid: cfg & C_IGNORE_REQ != 0,
    }
}

pub fn resp_hdr_opts(cfg: u8) -> HdrOpts {
    HdrOpts {
        spaces_after_name: cfg & C_SPACES_AFTER_NAME != 0,
        folding: cfg & C_FOLDING != 0,
        space_before_first: cfg & C_SPACE_BEFORE_FIRST != 0,
        ignore_invalid: cfg & C_IGNORE_RESP != 0,
    }
}

impl Model {
    /// The reference machine for an entry point under config bits `cfg` (entry points that take
    /// no config get the default), with header capacity `cap`.
    pub fn for_entry(entry: Entry, cfg: u8, cap: u32) -> Model {
        let cfg = if entry.takes_config() { cfg } else { 0 };
        if entry.is_req() {
            Model::Req(Req::new(cfg & C_MULTI_REQ != 0, req_hdr_opts(cfg), cap))
        } else if entry.is_resp() {
            Model::Resp(Resp::new(cfg & C_MULTI_RESP != 0, resp_hdr_opts(cfg), cap))
        } else if entry == Entry::Headers {
            Model::Hdr(Hdr::new(HdrOpts::default(), cap, 0))
        } else {
            Model::Chunk(Chunk::new())
        }
    }

    #[inline]
    pub fn step(&mut self, b: u8) {
        match self {
            Model::Req(m) => m.step(b),
            Model::Resp(m) => m.step(b),
            Model::Hdr(m) => m.step(b),
            Model::Chunk(m) => m.step(b),
        }
    }

    pub fn feed(&mut self, bytes: &[u8]) {
        for &b in bytes {
            self.step(b);
        }
    }

    #[inline]
    pub fn status(&self) -> St {
        match self {
            Model::Req(m) => m.status(),
            Model::Resp(m) => m.status(),
            Model::Hdr(m) => m.status(),
            Model::Chunk(m) => m.status(),
        }
    }

    pub fn completion(&self, out: &mut Vec<u8>) -> bool {
        match self {
            Model::Req(m) => m.completion(out),
            Model::Resp(m) => m.completion(out),
            Model::Hdr(m) => m.completion(out),
            Model::Chunk(m) => m.completion(out),
        }
    }

    /// small integer naming the control state (coverage accounting; < 512)
    pub fn control_id(&self) -> usize {
        use refmodel::{CSt, HSt, PSt, RSt};
        fn hid(h: &Hdr) -> usize {
            let s = match h.st {
                HSt::LineStart => 0,
                HSt::HeadCr => 1,
                HSt::Name => 2,
                HSt::NameWs => 3,
                HSt::AfterColon => 4,
                HSt::AfterColonCr => 5,
                HSt::FoldEmpty => 6,
                HSt::Value => 7,
                HSt::ValueCr => 8,
                HSt::FoldValue => 9,
                HSt::Skip(k) => 10 + (k as usize & 1),
                HSt::SkipCr(k) => 12 + (k as usize & 1),
                HSt::Done(_) => 14,
                HSt::Fail(k) => 15 + k as usize,
            };
            s * 3 + (h.stored as usize).min(2)
        }
        match self {
            Model::Req(m) => match m.st {
                RSt::Lead => 0,
                RSt::LeadCr => 1,
                RSt::Method => 2,
                RSt::Sp1 => 3,
                RSt::Target => 4 + if m.utf8.bad { 4 } else { m.utf8.need as usize },
                RSt::Sp2 => 9,
                RSt::Version(i) => 10 + i as usize,
                RSt::Eol => 18,
                RSt::EolCr => 19,
                RSt::Fail(k) => 20 + k as usize,
                RSt::Headers => 32 + hid(&m.hdr),
            },
            Model::Resp(m) => 128 + match m.st {
                PSt::Lead => 0,
                PSt::LeadCr => 1,
                PSt::Version(i) => 2 + i as usize,
                PSt::VersionSp => 10,
                PSt::Code(i) => 11 + i as usize,
                PSt::AfterCode => 14,
                PSt::AfterCodeCr => 15,
                PSt::ReasonSp => 16,
                PSt::Reason => 17,
                PSt::ReasonCr => 18,
                PSt::Fail(k) => 20 + k as usize,
                PSt::Headers => 32 + hid(&m.hdr),
            },
            Model::Hdr(m) => 256 + hid(m),
            Model::Chunk(m) => 384 + match m.st {
                CSt::Digits(n) => n as usize,
                CSt::Ws => 17,
                CSt::Ext => 18,
                CSt::Cr => 19,
                CSt::Done(_) => 20,
                CSt::Fail => 21,
            },
        }
    }

    /// abstract state (everything positional removed) as a string, for graph searches
    pub fn abstract_string(&self) -> String {
        match self {
            Model::Req(m) => format!("{:?}", m.abstract_key()),
            Model::Resp(m) => format!("{:?}", m.abstract_key()),
            Model::Hdr(m) => format!("{:?}", m.abstract_key()),
            Model::Chunk(m) => format!("{:?}", m.abstract_key()),
        }
    }

    pub fn out(&self) -> ModelOut {
        let mut o = ModelOut {
            st: self.status(),
            method: (0, 0),
            path: (0, 0),
            version: 0,
            code: 0,
            reason: None,
            nh: 0,
            hdrs: [((0, 0), (0, 0)); MAXH],
            hash: 0,
            size: 0,
        };
        let hdr = match self {
            Model::Req(m) => {
                o.method = m.method;
                o.path = m.path;
                o.version = m.version;
                Some(&m.hdr)
            }
            Model::Resp(m) => {
                o.version = m.version;
                o.code = m.code;
                o.reason = m.reason;
                Some(&m.hdr)
            }
            Model::Hdr(m) => Some(m),
            Model::Chunk(m) => {
                o.size = m.size;
                None
            }
        };
        if let Some(h) = hdr {
            o.nh = h.stored;
            o.hdrs = h.out;
            o.hash = h.hash;
        }
        o
    }
}

/// Every completion suffix any model state can offer (the finite completion set of C11), used
/// when the model is already terminal at an implementation-Partial node.
pub fn completion_set() -> Vec<Vec<u8>> {
    let mut v: Vec<Vec<u8>> = Vec::new();
    let lits: [&[u8]; 22] = [
        b"\r\n",
        b"\n",
        b":\r\n\r\n",
        b"\r\n\r\n",
        b"\n\r\n",
        b"A / HTTP/1.1\r\n\r\n",
        b"\nA / HTTP/1.1\r\n\r\n",
        b" / HTTP/1.1\r\n\r\n",
        b"/ HTTP/1.1\r\n\r\n",
        b" HTTP/1.1\r\n\r\n",
        b"HTTP/1.1 200\r\n\r\n",
        b"\nHTTP/1.1 200\r\n\r\n",
        b" 200\r\n\r\n",
        b"200\r\n\r\n",
        b"00\r\n\r\n",
        b"0\r\n\r\n",
        b"0\r\n",
        b"\x80 HTTP/1.1\r\n\r\n",
        b"\x80\x80 HTTP/1.1\r\n\r\n",
        b"\x80\x80\x80 HTTP/1.1\r\n\r\n",
        b"\xA0\x80 HTTP/1.1\r\n\r\n",
        b"\x90\x80\x80 HTTP/1.1\r\n\r\n",
    ];
    for l in lits {
        v.push(l.to_vec());
    }
    for i in 0..=8 {
        let mut a = b"HTTP/1.1"[i..].to_vec();
        a.extend_from_slice(b"\r\n\r\n");
        v.push(a);
        let mut a = b"HTTP/1.1"[i..].to_vec();
        a.extend_from_slice(b" 200\r\n\r\n");
        v.push(a);
    }
    v
}
