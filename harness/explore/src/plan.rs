//! Which spaces are explored, with which oracles armed, for each property and tier.

use crate::call::*;
use crate::oracle::*;
use crate::runner::{Phase, TaskFn};
use crate::s1::*;
use crate::{s2, s3, s8};
use std::sync::Arc;

#[derive(Clone, Copy, PartialEq, Eq, Debug)]
pub enum Tier {
    Quick,
    Thorough,
}

pub struct Plan {
    pub armed: u32,
    pub phases: Vec<Phase>,
    pub bounds: Vec<String>,
    /// every tree explored (for the reachable-transition count)
    pub trees: std::sync::Arc<std::sync::Mutex<Vec<std::sync::Arc<TreeSpec>>>>,
}

thread_local! {
    static TREES: std::cell::RefCell<Vec<std::sync::Arc<TreeSpec>>> = const { std::cell::RefCell::new(Vec::new()) };
}

pub fn take_trees() -> Vec<std::sync::Arc<TreeSpec>> {
    TREES.with(|t| std::mem::take(&mut *t.borrow_mut()))
}

fn tree_tasks(specs: Vec<TreeSpec>) -> Vec<TaskFn> {
    let mut tasks: Vec<TaskFn> = Vec::new();
    for spec in specs {
        let spec = Arc::new(spec);
        TREES.with(|t| t.borrow_mut().push(spec.clone()));
        for i in 0..spec.alphabet.len() {
            let sp = spec.clone();
            tasks.push(Box::new(move |ck: &mut Checker| run_tree(ck, &sp, Some(i))));
        }
    }
    tasks
}

/// The (entry, config) pairs that reach distinct header grammars: parse_headers, 4 request option
/// sets, 16 response option sets.
pub fn header_lanes(all_options: bool) -> Vec<(Entry, u8)> {
    let mut v = vec![(Entry::Headers, 0u8)];
    if all_options {
        for sbf in [0, C_SPACE_BEFORE_FIRST] {
            for ign in [0, C_IGNORE_REQ] {
                v.push((Entry::ReqCfg, sbf | ign));
            }
        }
        for b in 0..16u8 {
            let mut c = 0;
            if b & 1 != 0 {
                c |= C_SPACES_AFTER_NAME;
            }
            if b & 2 != 0 {
                c |= C_FOLDING;
            }
            if b & 4 != 0 {
                c |= C_SPACE_BEFORE_FIRST;
            }
            if b & 8 != 0 {
                c |= C_IGNORE_RESP;
            }
            v.push((Entry::RespCfg, c));
        }
    } else {
        v.push((Entry::ReqCfg, 0));
        v.push((Entry::RespCfg, 0));
    }
    v
}

/// Every configuration that can behave differently for its message kind: 8 request option sets
/// (3 request-relevant bits) and 32 response option sets (5 response-relevant bits) — together with
/// C15's second clause (other-kind options are inert) this is all 128 ParserConfig values.
pub fn all_config_lanes() -> Vec<(Entry, u8)> {
    let mut v = Vec::new();
    for c in 0..128u8 {
        if c & !REQ_BITS == 0 {
            v.push((Entry::ReqCfg, c));
        }
        if c & !RESP_BITS == 0 {
            v.push((Entry::RespCfg, c));
        }
    }
    v
}

/// Header-block trees for the given lanes × resume contexts.
pub fn header_trees(lanes: &[(Entry, u8)], caps: &[u32], k: usize, depth: usize, extra: usize, comp: &Companions) -> Vec<TreeSpec> {
    let mut v = Vec::new();
    for &(entry, cfg) in lanes {
        for &cap in caps {
            for (vi, sl) in start_line_variants(entry).into_iter().enumerate() {
                for (ri, r) in header_resume_contexts().into_iter().enumerate() {
                    // the canonical start line with every resume context at full depth; the
                    // alternative start lines (LF-only, no reason, leading empty line) with the
                    // first two resume contexts one level shallower
                    if vi > 0 && (ri > 1 || depth < 2) {
                        continue;
                    }
                    let mut ctx = sl.to_vec();
                    ctx.extend_from_slice(&r);
                    v.push(TreeSpec {
                        lane: Lane::new(entry, cfg, cap),
                        ctx,
                        alphabet: header_alphabet(k),
                        depth: if vi > 0 { depth - 1 } else { depth },
                        extra,
                        companions: comp.clone(),
                    });
                }
            }
        }
    }
    v
}

pub fn request_trees(cfgs: &[u8], cap: u32, k: usize, depth: usize, extra: usize, comp: &Companions) -> Vec<TreeSpec> {
    let mut v = Vec::new();
    for &cfg in cfgs {
        for ctx in request_contexts() {
            v.push(TreeSpec { lane: Lane::new(Entry::ReqCfg, cfg, cap), ctx, alphabet: request_alphabet(k), depth, extra, companions: comp.clone() });
        }
    }
    v
}

pub fn status_trees(cfgs: &[u8], cap: u32, k: usize, depth: usize, extra: usize, comp: &Companions) -> Vec<TreeSpec> {
    let mut v = Vec::new();
    for &cfg in cfgs {
        for ctx in status_contexts() {
            v.push(TreeSpec { lane: Lane::new(Entry::RespCfg, cfg, cap), ctx, alphabet: status_alphabet(k), depth, extra, companions: comp.clone() });
        }
    }
    v
}

pub fn chunk_trees(depth: usize, extra: usize) -> Vec<TreeSpec> {
    let mut v: Vec<TreeSpec> = chunk_contexts()
        .into_iter()
        .map(|ctx| TreeSpec { lane: Lane::new(Entry::Chunk, 0, 0), ctx, alphabet: chunk_alphabet(), depth, extra, companions: Companions::None })
        .collect();
    // every digit count in between, shallower (so that every state of the digit counter is entered)
    for n in 1..=13usize {
        let ctx: Vec<u8> = (0..n).map(|i| b"1aF09"[i % 5]).collect();
        v.push(TreeSpec { lane: Lane::new(Entry::Chunk, 0, 0), ctx, alphabet: chunk_alphabet(), depth: depth.min(3), extra, companions: Companions::None });
    }
    v
}

fn phase(label: &str, backend: Backend, tasks: Vec<TaskFn>) -> Phase {
    Phase { label: label.to_string(), backend, tasks }
}

fn with_backend(mut specs: Vec<TreeSpec>, b: Backend) -> Vec<TreeSpec> {
    for s in specs.iter_mut() {
        s.lane.backend = b;
    }
    specs
}

pub const BACKENDS: [Backend; 3] = [Backend::Avx2, Backend::Sse42, Backend::Scalar];

/// All four S1 areas with one set of bounds; used by the properties that ride on every tree.
#[allow(clippy::too_many_arguments)]
fn all_areas(
    p: &mut Plan,
    tag: &str,
    hdr_lanes: &[(Entry, u8)],
    caps: &[u32],
    dh: usize,
    dl: usize,
    dc: usize,
    extra: usize,
    line_cfgs_req: &[u8],
    line_cfgs_resp: &[u8],
) {
    let none = Companions::None;
    if dh >= 8 && caps.len() > 1 {
        // thorough tier: the deepest level only at the last (largest) capacity; the tree grows
        // about 9x per level and a run has to complete inside its wall cap
        let (last, rest) = caps.split_last().unwrap();
        p.phases.push(phase(&format!("{tag}: S1 header trees D={} E={} at capacities {:?}", dh - 1, extra.min(1), rest), Backend::Native, tree_tasks(header_trees(hdr_lanes, rest, 1, dh - 1, extra.min(1), &none))));
        p.phases.push(phase(&format!("{tag}: S1 header trees D={dh} E={extra} at capacity {last}"), Backend::Native, tree_tasks(header_trees(hdr_lanes, &[*last], 1, dh, extra, &none))));
    } else {
        p.phases.push(phase(&format!("{tag}: S1 header trees D={dh} E={extra}"), Backend::Native, tree_tasks(header_trees(hdr_lanes, caps, 1, dh, extra, &none))));
    }
    p.phases.push(phase(&format!("{tag}: S1 request-line trees D={dl} E={extra}"), Backend::Native, tree_tasks(request_trees(line_cfgs_req, 2, 1, dl, extra, &none))));
    p.phases.push(phase(&format!("{tag}: S1 status-line trees D={dl} E={extra}"), Backend::Native, tree_tasks(status_trees(line_cfgs_resp, 2, 1, dl, extra, &none))));
    p.phases.push(phase(&format!("{tag}: S1 chunk-size trees D={dc} E={extra}"), Backend::Native, tree_tasks(chunk_trees(dc, extra))));
    p.bounds.push(format!(
        "S1: header block Σ(11)^≤{dh} (thorough tier: the last level only at the largest capacity) × {} lanes × capacities {:?} × 4 resume contexts and alternative start lines; request line Σ(19)^≤{dl} × 17 contexts × {} configs; status line Σ(19)^≤{dl} × 15 contexts × {} configs; chunk size Σ(14)^≤{dc} × 5 contexts; terminal nodes extended by Σ^≤{extra}",
        hdr_lanes.len(), caps, line_cfgs_req.len(), line_cfgs_resp.len()
    ));
}

/// χ_k concretisations: the run symbol stretched to k bytes so that the 8/16/32-byte block scanners
/// and their hand-over to the tail scanner run inside every grammar context, per backend.
fn stretched(p: &mut Plan, tag: &str, hdr_lanes: &[(Entry, u8)], ks: &[usize], dh: usize, dl: usize, line_req: &[u8], line_resp: &[u8], backends: &[Backend]) {
    let none = Companions::None;
    for &b in backends {
        for &k in ks {
            let mut t = tree_tasks(with_backend(header_trees(hdr_lanes, &[3], k, dh, 1, &none), b));
            t.extend(tree_tasks(with_backend(request_trees(line_req, 2, k, dl, 1, &none), b)));
            t.extend(tree_tasks(with_backend(status_trees(line_resp, 2, k, dl, 1, &none), b)));
            p.phases.push(phase(&format!("{tag}: S1 χ_{k} trees (header D={dh}, lines D={dl})"), b, t));
        }
    }
    p.bounds.push(format!("S1 χ_k: run symbol stretched to k ∈ {:?} bytes, header D={dh}, lines D={dl}, backends {:?}", ks, backends.iter().map(|b| b.name()).collect::<Vec<_>>()));
}

pub fn plan(prop: &str, tier: Tier) -> Option<Plan> {
    let q = tier == Tier::Quick;
    let mut p = Plan { armed: 0, phases: Vec::new(), bounds: Vec::new(), trees: Default::default() };
    let _ = take_trees();
    let all_hdr = header_lanes(true);
    let def_hdr = header_lanes(false);
    let multi_req = [0u8, C_MULTI_REQ];
    let multi_resp = [0u8, C_MULTI_RESP];
    match prop {
        "C01" => {
            p.armed = O_SAFE;
            all_areas(&mut p, "C01", &all_hdr, &[0, 1, 2, 16], if q { 5 } else { 7 }, if q { 4 } else { 5 }, if q { 5 } else { 6 }, 1, &multi_req, &multi_resp);
            stretched(&mut p, "C01", &all_hdr, &[9, 17, 33], if q { 4 } else { 5 }, if q { 3 } else { 4 }, &multi_req, &multi_resp, &BACKENDS);
            {
                let allc = all_config_lanes();
                let none = Companions::None;
                let dq = if q { 4 } else { 5 };
                let req_cfgs: Vec<u8> = allc.iter().filter(|l| l.0 == Entry::ReqCfg).map(|l| l.1).collect();
                let resp_cfgs: Vec<u8> = allc.iter().filter(|l| l.0 == Entry::RespCfg).map(|l| l.1).collect();
                let mut t = tree_tasks(header_trees(&allc, &[0, 2], 1, dq, 1, &none));
                t.extend(tree_tasks(request_trees(&req_cfgs, 2, 1, dq - 1, 1, &none)));
                t.extend(tree_tasks(status_trees(&resp_cfgs, 2, 1, dq - 1, 1, &none)));
                p.phases.push(phase(&format!("C01: S1 trees under all 8 request + 32 response configurations (header D={dq}, lines D={})", dq - 1), Backend::Native, t));
                p.bounds.push(format!("S1: all 128 ParserConfig values (8 request-relevant x 32 response-relevant behaviours) at header Σ^≤{dq}, line Σ^≤{}", dq - 1));
            }
            {
                // in-class bytes around the buffer: an over-read that stays inside mapped memory
                // makes a scanner run on past the end (debug assertion / wrong result)
                use crate::arena::Place;
                let none = Companions::None;
                let dq = if q { 5 } else { 7 };
                let mut specs = header_trees(&all_hdr, &[2], 1, dq, 0, &none);
                specs.extend(request_trees(&multi_req, 2, 1, dq - 1, 0, &none));
                specs.extend(status_trees(&multi_resp, 2, 1, dq - 1, 0, &none));
                for k in [0usize, 3] {
                    let mut sp = specs.clone();
                    for s in sp.iter_mut() {
                        s.lane.place = Place::Hostile(k);
                    }
                    p.phases.push(phase(&format!("C01: S1 trees with in-class bytes around the buffer (offset {k}; header D={dq}, lines D={})", dq - 1), Backend::Native, tree_tasks(sp)));
                }
                p.bounds.push(format!("S1 hostile surroundings: header Σ^≤{dq} / line Σ^≤{} trees with the buffer placed between runs of 'a' bytes at start offsets 0 and 3", dq - 1));
            }
            s2::add_entry_sweep(&mut p, q);
            s2::add_lane_phase(&mut p, q, &BACKENDS);
            s3::add_grids(&mut p, q, false);
            s2::add_long_fields(&mut p, q, &BACKENDS, &[]);
            s2::add_page_boundary_sweep(&mut p, q, &BACKENDS, &[]);
            s2::add_long_fields_huge_remainder(&mut p, q, &BACKENDS, &[]);
            s2::add_token_grids(&mut p, q, true, true, true);
            s2::add_header_count_sweep(&mut p, q);
            s2::add_line_strings(&mut p, q, &all_config_lanes(), &[2]);
            s8::add_families(&mut p, q);
        }
        "C02" => {
            p.armed = O_STREAM;
            all_areas(&mut p, "C02", &all_hdr, &[0, 1, 2, 16], if q { 6 } else { 8 }, if q { 4 } else { 6 }, if q { 5 } else { 7 }, 1, &multi_req, &multi_resp);
            stretched(&mut p, "C02", &all_hdr, &[9, 17, 33], if q { 4 } else { 5 }, if q { 3 } else { 4 }, &multi_req, &multi_resp, &BACKENDS);
            s2::add_prefix_sweep(&mut p, q, &BACKENDS);
            s2::add_field_prefix_sweep(&mut p, q, &BACKENDS);
            s2::add_long_fields(&mut p, q, &BACKENDS, &[]);
            s2::add_page_boundary_sweep(&mut p, q, &BACKENDS, &[]);
            s2::add_long_fields_huge_remainder(&mut p, q, &BACKENDS, &[]);
        }
        "C03" => {
            p.armed = O_FRAMING;
            s2::add_whitespace_run_sweep(&mut p, q);
            s2::add_repetition_sweep(&mut p, q);
            all_areas(&mut p, "C03", &all_hdr, &[0, 1, 2, 16], if q { 6 } else { 8 }, if q { 4 } else { 6 }, if q { 5 } else { 7 }, 1, &multi_req, &multi_resp);
            s2::add_chunk_sweeps(&mut p, q);
            s8::add_families(&mut p, q);
            s2::add_template_mutations(&mut p, q, &[Backend::Native]);
            s2::add_long_fields(&mut p, q, &BACKENDS, &[]);
            s2::add_page_boundary_sweep(&mut p, q, &BACKENDS, &[]);
            s2::add_long_fields_huge_remainder(&mut p, q, &BACKENDS, &[]);
            s2::add_token_grids(&mut p, q, true, true, true);
            s2::add_header_count_sweep(&mut p, q);
            s2::add_line_strings(&mut p, q, &all_config_lanes(), &[2]);
        }
        "C04" => {
            p.armed = O_ZEROCOPY;
            s2::add_whitespace_run_sweep(&mut p, q);
            s2::add_repetition_sweep(&mut p, q);
            all_areas(&mut p, "C04", &all_hdr, &[0, 1, 2, 16], if q { 6 } else { 8 }, if q { 4 } else { 6 }, 3, 1, &multi_req, &multi_resp);
            stretched(&mut p, "C04", &all_hdr, &[9, 17, 33], if q { 4 } else { 5 }, if q { 3 } else { 4 }, &multi_req, &multi_resp, &BACKENDS);
            s2::add_template_mutations(&mut p, q, &[Backend::Native]);
            s8::add_families(&mut p, q);
            s2::add_long_fields(&mut p, q, &BACKENDS, &[]);
            s2::add_page_boundary_sweep(&mut p, q, &BACKENDS, &[]);
            s2::add_long_fields_huge_remainder(&mut p, q, &BACKENDS, &[]);
            s2::add_token_grids(&mut p, q, true, true, true);
            s2::add_header_count_sweep(&mut p, q);
            s2::add_line_strings(&mut p, q, &all_config_lanes(), &[2]);
        }
        "C05" => {
            p.armed = O_HYGIENE;
            s2::add_whitespace_run_sweep(&mut p, q);
            s2::add_repetition_sweep(&mut p, q);
            all_areas(&mut p, "C05", &all_hdr, &[4], if q { 6 } else { 8 }, if q { 4 } else { 6 }, 3, 1, &multi_req, &multi_resp);
            s2::add_template_mutations(&mut p, q, &BACKENDS);
            s2::add_lane_phase(&mut p, q, &BACKENDS);
            s2::add_pair_sweeps(&mut p, q, &BACKENDS, &[]);
            s2::add_utf8_sweep(&mut p, q, &BACKENDS);
            s2::add_long_fields(&mut p, q, &BACKENDS, &[]);
            s2::add_page_boundary_sweep(&mut p, q, &BACKENDS, &[]);
            s2::add_long_fields_huge_remainder(&mut p, q, &BACKENDS, &[]);
            s2::add_token_grids(&mut p, q, true, true, true);
            s2::add_header_count_sweep(&mut p, q);
            s2::add_line_strings(&mut p, q, &all_config_lanes(), &[2]);
        }
        "C06" => {
            p.armed = O_LANG;
            s2::add_whitespace_run_sweep(&mut p, q);
            s2::add_repetition_sweep(&mut p, q);
            let none = Companions::None;
            let d = if q { 5 } else { 7 };
            p.phases.push(phase(&format!("C06: S1 request-line trees D={d}"), Backend::Native, tree_tasks(request_trees(&multi_req, 2, 1, d, 1, &none))));
            p.bounds.push(format!("S1: request line Σ(19)^≤{d} × 17 contexts × both multi-space settings, E=1"));
            {
                let mut sp = request_trees(&multi_req, 2, 1, d - 1, 0, &none);
                for s in sp.iter_mut() {
                    s.lane.entry = Entry::ReqCfgUninit;
                }
                p.phases.push(phase(&format!("C06: S1 request-line trees through parse_request_with_uninit_headers D={}", d - 1), Backend::Native, tree_tasks(sp)));
            }
            for &b in &BACKENDS {
                for k in [9usize, 17, 33] {
                    let dk = if q { 3 } else { 4 };
                    p.phases.push(phase(&format!("C06: S1 χ_{k} request-line trees D={dk}"), b, tree_tasks(with_backend(request_trees(&multi_req, 2, k, dk, 1, &none), b))));
                }
            }
            s2::add_field_sweeps(&mut p, q, &BACKENDS, &["method", "target", "req-version"]);
            s2::add_pair_sweeps(&mut p, q, &BACKENDS, &["method", "target"]);
            s2::add_utf8_sweep(&mut p, q, &BACKENDS);
            s2::add_templates_for(&mut p, q, &BACKENDS, "request");
            s2::add_long_fields(&mut p, q, &BACKENDS, &["method", "target"]);
            s2::add_page_boundary_sweep(&mut p, q, &BACKENDS, &["method", "target"]);
            s2::add_long_fields_huge_remainder(&mut p, q, &BACKENDS, &["method", "target"]);
            s2::add_token_grids(&mut p, q, true, false, false);
        }
        "C07" => {
            p.armed = O_LANG;
            s2::add_whitespace_run_sweep(&mut p, q);
            s2::add_repetition_sweep(&mut p, q);
            let none = Companions::None;
            let d = if q { 5 } else { 7 };
            p.phases.push(phase(&format!("C07: S1 status-line trees D={d}"), Backend::Native, tree_tasks(status_trees(&multi_resp, 2, 1, d, 1, &none))));
            p.bounds.push(format!("S1: status line Σ(19)^≤{d} × 15 contexts × both multi-space settings, E=1"));
            {
                let mut sp = status_trees(&multi_resp, 2, 1, d - 1, 0, &none);
                for s in sp.iter_mut() {
                    s.lane.entry = Entry::RespCfgUninit;
                }
                p.phases.push(phase(&format!("C07: S1 status-line trees through parse_response_with_uninit_headers D={}", d - 1), Backend::Native, tree_tasks(sp)));
            }
            for &b in &BACKENDS {
                for k in [9usize, 17, 33] {
                    let dk = if q { 3 } else { 4 };
                    p.phases.push(phase(&format!("C07: S1 χ_{k} status-line trees D={dk}"), b, tree_tasks(with_backend(status_trees(&multi_resp, 2, k, dk, 1, &none), b))));
                }
            }
            s2::add_field_sweeps(&mut p, q, &BACKENDS, &["reason", "code"]);
            s2::add_pair_sweeps(&mut p, q, &BACKENDS, &["reason"]);
            s2::add_templates_for(&mut p, q, &BACKENDS, "response");
            s2::add_long_fields(&mut p, q, &BACKENDS, &["reason"]);
            s2::add_page_boundary_sweep(&mut p, q, &BACKENDS, &["reason"]);
            s2::add_long_fields_huge_remainder(&mut p, q, &BACKENDS, &["reason"]);
            s2::add_token_grids(&mut p, q, false, true, false);
        }
        "C08" => {
            p.armed = O_LANG;
            s2::add_whitespace_run_sweep(&mut p, q);
            s2::add_repetition_sweep(&mut p, q);
            let none = Companions::None;
            let d = if q { 8 } else { 10 };
            p.phases.push(phase(&format!("C08: S1 header trees (default options) D={d}"), Backend::Native, tree_tasks(header_trees(&def_hdr, &[4], 1, d, 1, &none))));
            p.bounds.push(format!("S1: header block Σ(11)^≤{d} × 3 entry kinds × 4 resume contexts, default options, capacity 4, E=1"));
            for &b in &BACKENDS {
                for k in [9usize, 17, 33] {
                    let dk = if q { 5 } else { 6 };
                    p.phases.push(phase(&format!("C08: S1 χ_{k} header trees D={dk}"), b, tree_tasks(with_backend(header_trees(&def_hdr, &[4], k, dk, 1, &none), b))));
                }
            }
            s2::add_field_sweeps(&mut p, q, &BACKENDS, &["header-name", "header-value"]);
            s2::add_pair_sweeps(&mut p, q, &BACKENDS, &["header-name", "header-value"]);
            s2::add_token_grids(&mut p, q, false, false, true);
            s2::add_line_strings(&mut p, q, &def_hdr, &[4]);
            s2::add_templates_for(&mut p, q, &BACKENDS, "headers");
            s2::add_long_fields(&mut p, q, &BACKENDS, &["header-name", "header-value"]);
            s2::add_page_boundary_sweep(&mut p, q, &BACKENDS, &["header-name", "header-value"]);
            s2::add_long_fields_huge_remainder(&mut p, q, &BACKENDS, &["header-name", "header-value"]);
        }
        "C09" => {
            p.armed = O_LANG | O_FRAMING;
            s2::add_whitespace_run_sweep(&mut p, q);
            s2::add_repetition_sweep(&mut p, q);
            let d = if q { 6 } else { 7 };
            p.phases.push(phase(&format!("C09: S1 chunk-size trees Σ^≤{d}"), Backend::Native, tree_tasks(chunk_trees(d, 1))));
            p.bounds.push(format!("S1: chunk size Σ(14)^≤{d} after 0/14/15/16/17 leading digits, E=1"));
            s2::add_chunk_sweeps(&mut p, q);
            s2::add_pair_sweeps(&mut p, q, &[Backend::Native], &["chunk-ext"]);
            s2::add_long_fields(&mut p, q, &[Backend::Native], &["chunk-ext"]);
            s2::add_page_boundary_sweep(&mut p, q, &[Backend::Native], &["chunk-ext"]);
            s2::add_long_fields_huge_remainder(&mut p, q, &[Backend::Native], &["chunk-ext"]);
        }
        "C10" => {
            p.armed = O_ERRKIND;
            all_areas(&mut p, "C10", &all_hdr, &[0, 1, 2], if q { 6 } else { 8 }, if q { 4 } else { 6 }, 2, 0, &multi_req, &multi_resp);
            s2::add_template_mutations(&mut p, q, &[Backend::Native]);
            s2::add_header_count_sweep(&mut p, q);
            s2::add_line_strings(&mut p, q, &all_config_lanes(), &[2]);
            s2::add_long_fields(&mut p, q, &BACKENDS, &[]);
            s2::add_page_boundary_sweep(&mut p, q, &BACKENDS, &[]);
            s2::add_long_fields_huge_remainder(&mut p, q, &BACKENDS, &[]);
            s2::add_token_grids(&mut p, q, true, true, true);
        }
        "C11" => {
            p.armed = O_PARTIAL;
            s2::add_whitespace_run_sweep(&mut p, q);
            s2::add_repetition_sweep(&mut p, q);
            all_areas(&mut p, "C11", &all_hdr, &[1, 16], if q { 6 } else { 8 }, if q { 4 } else { 6 }, if q { 5 } else { 7 }, 0, &multi_req, &multi_resp);
            s2::add_prefix_sweep(&mut p, q, &[Backend::Native]);
            s2::add_field_prefix_sweep(&mut p, q, &[Backend::Native]);
            s2::add_long_fields(&mut p, q, &[Backend::Native], &[]);
            s2::add_page_boundary_sweep(&mut p, q, &[Backend::Native], &[]);
            s2::add_long_fields_huge_remainder(&mut p, q, &[Backend::Native], &[]);
            s2::add_token_grids(&mut p, q, true, true, true);
            s2::add_line_strings(&mut p, q, &all_config_lanes(), &[2]);
            s8::add_families(&mut p, q);
            s2::add_chunk_sweeps(&mut p, q);
        }
        "C14" => {
            p.armed = O_LANG;
            s2::add_whitespace_run_sweep(&mut p, q);
            s2::add_repetition_sweep(&mut p, q);
            let none = Companions::None;
            let d = if q { 6 } else { 8 };
            p.phases.push(phase(&format!("C14: S1 header trees, 16 response + 4 request option sets, D={d}"), Backend::Native, tree_tasks(header_trees(&all_hdr, &[4], 1, d, 1, &none))));
            p.bounds.push(format!("S1: header block Σ(11)^≤{d} × (16 response + 4 request option sets + parse_headers) × 4 resume contexts, capacity 4, E=1"));
            let allc = all_config_lanes();
            p.phases.push(phase(&format!("C14: S1 header trees under all 8 request + 32 response option sets (multi-space bits included), D={}", d - 1), Backend::Native, tree_tasks(header_trees(&allc, &[4], 1, d - 1, 1, &none))));
            p.bounds.push(format!("S1: header block Σ(11)^≤{} × all 8 request + 32 response configurations × 4 resume contexts", d - 1));
            for &b in &BACKENDS {
                for k in [9usize, 17, 33] {
                    let dk = if q { 4 } else { 5 };
                    p.phases.push(phase(&format!("C14: S1 χ_{k} header trees D={dk}"), b, tree_tasks(with_backend(header_trees(&all_hdr, &[4], k, dk, 1, &none), b))));
                }
            }
            {
                // every one of the 128 ParserConfig values on both message kinds: an option of the
                // other kind must not widen anything
                let every: Vec<(Entry, u8)> = (0..128u8).flat_map(|c| [(Entry::ReqCfg, c), (Entry::RespCfg, c)]).collect();
                let de = if q { 4 } else { 5 };
                p.phases.push(phase(&format!("C14: S1 header trees under all 128 configurations on both message kinds, D={de}"), Backend::Native, tree_tasks(header_trees(&every, &[4], 1, de, 1, &none))));
                p.bounds.push(format!("S1: header block Σ(11)^≤{de} × 128 configurations × request and response × 4 resume contexts"));
            }
            s2::add_option_templates(&mut p, q);
            s2::add_long_fields(&mut p, q, &BACKENDS, &["header-name", "header-value", "dropped-line"]);
            s2::add_page_boundary_sweep(&mut p, q, &BACKENDS, &["header-name", "header-value", "dropped-line"]);
            s2::add_long_fields_huge_remainder(&mut p, q, &BACKENDS, &["header-name", "header-value", "dropped-line"]);
            s2::add_field_sweeps(&mut p, q, &BACKENDS, &["dropped-line"]);
            s2::add_token_grids(&mut p, q, false, false, true);
            s2::add_line_strings(&mut p, q, &all_config_lanes(), &[1, 4]);
        }
        "C15" => {
            p.armed = 0;
            let d = if q { 5 } else { 7 };
            let dl = if q { 3 } else { 4 };
            // first clause: default-Complete nodes under all 128 configurations
            let c = Companions::AllConfigs;
            // (capacities 0, 1, 2 as well: a head that fills the array exactly)
            let mut t = tree_tasks(header_trees(&[(Entry::ReqCfg, 0), (Entry::RespCfg, 0)], &[0, 1, 2, 4], 1, d, 0, &c));
            t.extend(tree_tasks(request_trees(&[0], 2, 1, dl + 1, 0, &c)));
            t.extend(tree_tasks(status_trees(&[0], 2, 1, dl + 1, 0, &c)));
            p.phases.push(phase(&format!("C15: default-Complete nodes × 128 configs (header D={d}, lines D={})", dl + 1), Backend::Native, t));
            // second clause: every node, every own-kind config, × every other-kind option subset
            let c = Companions::OtherKind;
            let req_own: Vec<u8> = (0..128u8).filter(|b| b & !REQ_BITS == 0).collect();
            let resp_own: Vec<u8> = (0..128u8).filter(|b| b & !RESP_BITS == 0).collect();
            let req_lanes: Vec<(Entry, u8)> = req_own.iter().map(|&b| (Entry::ReqCfg, b)).collect();
            let resp_lanes: Vec<(Entry, u8)> = resp_own.iter().map(|&b| (Entry::RespCfg, b)).collect();
            let dh2 = if q { 4 } else { 6 };
            let mut t = tree_tasks(header_trees(&req_lanes, &[0, 1, 2], 1, dh2, 0, &c));
            t.extend(tree_tasks(header_trees(&resp_lanes, &[0, 1, 2], 1, dh2, 0, &c)));
            t.extend(tree_tasks(request_trees(&req_own, 2, 1, dl, 0, &c)));
            t.extend(tree_tasks(status_trees(&resp_own, 2, 1, dl, 0, &c)));
            p.phases.push(phase(&format!("C15: every node × other-kind option subsets (header D={dh2}, lines D={dl})"), Backend::Native, t));
            p.bounds.push(format!("S1: default-Complete nodes of header Σ^≤{d} (capacities 0, 1, 2, 4) / line Σ^≤{} trees × 127 other configs; all nodes of header Σ^≤{dh2} (capacities 0, 1, 2) / line Σ^≤{dl} trees × 8 request (32 response) own-kind configs × 15 (3) other-kind option subsets", dl + 1));
            s2::add_config_templates(&mut p, q);
            s2::add_config_sweeps(&mut p, q);
        }
        "C16" => {
            p.armed = 0;
            let d = if q { 6 } else { 8 };
            let dl = if q { 4 } else { 5 };
            let c = Companions::Entries;
            let req_cfgs: Vec<u8> = (0..128u8).filter(|b| b & !REQ_BITS == 0).collect();
            let resp_cfgs: Vec<u8> = (0..128u8).filter(|b| b & !RESP_BITS == 0).collect();
            let req_lanes: Vec<(Entry, u8)> = req_cfgs.iter().map(|&b| (Entry::ReqCfg, b)).filter(|l| l.1 & C_MULTI_REQ == 0).collect();
            let resp_lanes: Vec<(Entry, u8)> = resp_cfgs.iter().map(|&b| (Entry::RespCfg, b)).filter(|l| l.1 & C_MULTI_RESP == 0).collect();
            let mut t = tree_tasks(header_trees(&req_lanes, &[0, 1, 3], 1, d, 0, &c));
            t.extend(tree_tasks(header_trees(&resp_lanes, &[0, 1, 3], 1, d, 0, &c)));
            t.extend(tree_tasks(request_trees(&multi_req, 2, 1, dl, 0, &c)));
            t.extend(tree_tasks(status_trees(&multi_resp, 2, 1, dl, 0, &c)));
            p.phases.push(phase(&format!("C16: 4 request / 4 response entry points pairwise (header D={d}, lines D={dl})"), Backend::Native, t));
            let c = Companions::Lockstep;
            let mut specs = Vec::new();
            for cap in [0u32, 1, 3] {
                for r in header_resume_contexts() {
                    specs.push(TreeSpec { lane: Lane::new(Entry::Headers, 0, cap), ctx: r, alphabet: header_alphabet(1), depth: d + 1, extra: 0, companions: c.clone() });
                }
            }
            p.phases.push(phase(&format!("C16: parse_headers in lock-step with request and response heads (D={})", d + 1), Backend::Native, tree_tasks(specs)));
            p.bounds.push(format!("S1: header Σ^≤{d} × 4 request + 16 response option sets × capacities 0,1,3 × 4 resume contexts, line Σ^≤{dl}; every node on all 4 entry points of its kind; parse_headers lock-step Σ^≤{}", d + 1));
            s2::add_entry_templates(&mut p, q);
            s2::add_entry_long(&mut p, q);
        }
        "C17" => {
            p.armed = O_STORAGE;
            // each node is evaluated at six capacities: one level less than the other trees
            let d = if q { 5 } else { 7 };
            let c = Companions::Capacities(vec![0, 1, 2, 3, 4]);
            // every entry point that stores headers, init and uninit
            let mut lanes: Vec<(Entry, u8)> = vec![(Entry::Headers, 0), (Entry::ReqParse, 0), (Entry::ReqUninit, 0), (Entry::RespParse, 0), (Entry::RespUninit, 0)];
            for (e, cfg) in header_lanes(true) {
                if e != Entry::Headers {
                    lanes.push((e, cfg));
                    lanes.push((if e == Entry::ReqCfg { Entry::ReqCfgUninit } else { Entry::RespCfgUninit }, cfg));
                }
            }
            p.phases.push(phase(&format!("C17: header trees D={d} × 9 entry points × capacities 0..4 against capacity 16"), Backend::Native, tree_tasks(header_trees(&lanes, &[16], 1, d, 0, &c))));
            p.bounds.push(format!("S1: header Σ^≤{d} × {} (entry point, option set) lanes × 4 resume contexts; each node at capacity 16 and capacities 0..=4 (trees of this depth complete at most 4 headers); sentinel / poison prefilled arrays", lanes.len()));
            s2::add_capacity_templates(&mut p, q);
            s2::add_header_count_sweep(&mut p, q);
            s8::add_families(&mut p, q);
        }
        "C19" => {
            p.armed = O_ALLOC;
            all_areas(&mut p, "C19", &all_hdr, &[0, 2, 16], if q { 6 } else { 8 }, if q { 4 } else { 6 }, if q { 5 } else { 6 }, 0, &multi_req, &multi_resp);
            stretched(&mut p, "C19", &all_hdr, &[17, 33], 4, 3, &multi_req, &multi_resp, &BACKENDS);
            s2::add_entry_sweep(&mut p, q);
            s8::add_families(&mut p, q);
            s2::add_long_fields(&mut p, q, &[Backend::Native], &[]);
            s2::add_page_boundary_sweep(&mut p, q, &[Backend::Native], &[]);
            s2::add_long_fields_huge_remainder(&mut p, q, &[Backend::Native], &[]);
            s2::add_token_grids(&mut p, q, true, true, true);
            s2::add_header_count_sweep(&mut p, q);
        }
        "C20" => {
            p.armed = O_LINEAR;
            all_areas(&mut p, "C20", &all_hdr, &[0, 2, 16], if q { 6 } else { 8 }, if q { 4 } else { 6 }, if q { 5 } else { 6 }, 0, &multi_req, &multi_resp);
            stretched(&mut p, "C20", &all_hdr, &[17, 33], 4, 3, &multi_req, &multi_resp, &BACKENDS);
            s8::add_families(&mut p, q);
            s8::add_scaling(&mut p, q);
            s2::add_long_fields(&mut p, q, &[Backend::Native], &[]);
            s2::add_page_boundary_sweep(&mut p, q, &[Backend::Native], &[]);
            s2::add_long_fields_huge_remainder(&mut p, q, &[Backend::Native], &[]);
            s2::add_token_grids(&mut p, q, true, true, true);
            s2::add_header_count_sweep(&mut p, q);
        }
        "C12" => {
            p.armed = 0;
            s3::add_grids(&mut p, q, true);
        }
        "C13" => {
            // the in-process part of C13: forced backends and alignments must not change results
            p.armed = 0;
            s2::add_backend_agreement(&mut p, q);
            s2::add_alignment_agreement(&mut p, q);
        }
        _ => return None,
    }
    // the sweeps (S2, S3, S8: many shapes, seconds) before the symbol trees (S1: one shape family,
    // minutes in the thorough tier): if a run hits its wall cap, what is cut off is the deepest tree
    // level, which the report names, not a whole family of inputs
    p.phases.sort_by_key(|ph| if ph.label.contains("S1 ") { 1 } else { 0 });
    *p.trees.lock().unwrap() = take_trees();
    Some(p)
}
