//! Per-property oracles over one observation (plus, for the relational ones, a second one).

use crate::call::*;
use crate::model::{Model, ModelOut};
use refmodel::{is_reason_byte, is_target_byte, is_tchar, is_value_byte, Kind, St, MAXH};

pub const O_SAFE: u32 = 1 << 0; // C01
pub const O_STREAM: u32 = 1 << 1; // C02
pub const O_FRAMING: u32 = 1 << 2; // C03
pub const O_ZEROCOPY: u32 = 1 << 3; // C04
pub const O_HYGIENE: u32 = 1 << 4; // C05
pub const O_LANG: u32 = 1 << 5; // C06 C07 C08 C09 C14 (status class, n, fields, headers vs model)
pub const O_ERRKIND: u32 = 1 << 6; // C10
pub const O_PARTIAL: u32 = 1 << 7; // C11
pub const O_STORAGE: u32 = 1 << 8; // C17
pub const O_ALLOC: u32 = 1 << 9; // C19
pub const O_LINEAR: u32 = 1 << 10; // C20

#[derive(Clone, Debug)]
pub struct Violation {
    pub what: String,
    pub lane: Lane,
    pub input: Vec<u8>,
    pub observed: String,
    pub expected: String,
    /// second call of a relational violation (parent prefix, companion lane, completion, ...)
    pub related: Option<(Lane, Vec<u8>, String)>,
    /// how to reproduce: "none" (single call), "prefix" (streaming pair), or the companion kind
    pub relation: String,
    /// the calls this worker made just before (and including) the failing one
    pub preceding: Vec<(Lane, Vec<u8>)>,
    /// (phase, task) of the enumeration task that found it
    pub task: (u32, u32),
}

#[derive(Clone, Debug, Default)]
pub struct Stats {
    pub nodes: u64,
    pub edges: u64,
    pub model_compared: u64,
    pub completions_tried: u64,
    pub completions_exempt: u64,
    pub pairs_compared: u64,
    pub max_len: u64,
    /// histogram over (status/kind, header count clipped to 4)
    pub outcomes: [[u64; 5]; 10],
    /// model control states seen (bitset over Model::control_id)
    pub control: [u64; 8],
    /// nodes on which a block scanner made at least one block step (peek_n / as_ref calls)
    pub block_nodes: u64,
    pub samples: Vec<String>,
    /// model transitions taken along tree edges: bitset over (control id of the source state, byte)
    pub pairs: Vec<u64>,
}

pub const PAIR_WORDS: usize = 512 * 256 / 64;

impl Stats {
    #[inline]
    pub fn mark_pair(&mut self, control_id: usize, byte: u8) {
        if self.pairs.is_empty() {
            self.pairs = vec![0; PAIR_WORDS];
        }
        let i = control_id * 256 + byte as usize;
        self.pairs[i >> 6] |= 1 << (i & 63);
    }
    pub fn pairs_covered(&self) -> u64 {
        self.pairs.iter().map(|w| w.count_ones() as u64).sum()
    }
    pub fn merge(&mut self, o: &Stats) {
        self.nodes += o.nodes;
        self.edges += o.edges;
        self.model_compared += o.model_compared;
        self.completions_tried += o.completions_tried;
        self.completions_exempt += o.completions_exempt;
        self.pairs_compared += o.pairs_compared;
        self.max_len = self.max_len.max(o.max_len);
        for i in 0..10 {
            for j in 0..5 {
                self.outcomes[i][j] += o.outcomes[i][j];
            }
        }
        for i in 0..8 {
            self.control[i] |= o.control[i];
        }
        self.block_nodes += o.block_nodes;
        if !o.pairs.is_empty() {
            if self.pairs.is_empty() {
                self.pairs = vec![0; PAIR_WORDS];
            }
            for (a, b) in self.pairs.iter_mut().zip(o.pairs.iter()) {
                *a |= *b;
            }
        }
        for s in &o.samples {
            if self.samples.len() < 12 {
                self.samples.push(s.clone());
            }
        }
    }
    pub fn distinct_outcomes(&self) -> u64 {
        self.outcomes.iter().flatten().filter(|&&c| c > 0).count() as u64
    }
    pub fn control_states(&self) -> u64 {
        self.control.iter().map(|w| w.count_ones() as u64).sum()
    }
    pub fn record(&mut self, o: &Obs) {
        let i = match o.st {
            St::Partial => 0,
            St::Complete(_) => 1,
            St::Err(k) => 2 + k as usize,
        };
        self.outcomes[i][(o.nh as usize).min(4)] += 1;
        if o.counters.peek_n + o.counters.as_ref > 2 {
            self.block_nodes += 1;
        }
    }
}

pub fn hex(b: &[u8]) -> String {
    let mut s = String::with_capacity(b.len() * 2);
    for x in b {
        s.push_str(&format!("{:02x}", x));
    }
    s
}

pub fn printable(b: &[u8]) -> String {
    let mut s = String::new();
    for &x in b.iter().take(200) {
        match x {
            b'\r' => s.push_str("\\r"),
            b'\n' => s.push_str("\\n"),
            b'\t' => s.push_str("\\t"),
            b'\\' => s.push_str("\\\\"),
            0x20..=0x7E => s.push(x as char),
            _ => s.push_str(&format!("\\x{:02x}", x)),
        }
    }
    if b.len() > 200 {
        s.push_str(&format!("...(+{} bytes)", b.len() - 200));
    }
    s
}

fn fld_s(f: &Fld) -> String {
    if !f.some {
        "None".into()
    } else if f.outside {
        format!("outside(len {})", f.e)
    } else if f.len() == 0 {
        "\"\"".into()
    } else {
        format!("{}..{}", f.s, f.e)
    }
}

pub fn describe_obs(o: &Obs) -> String {
    let mut s = format!(
        "{:?} method={} path={} version={:?} code={:?} reason={} headers={}",
        o.st,
        fld_s(&o.method),
        fld_s(&o.path),
        o.version,
        o.code,
        fld_s(&o.reason),
        o.nh
    );
    for i in 0..(o.nh as usize).min(MAXH) {
        s.push_str(&format!(" [{}:{}]", fld_s(&o.hdrs[i].0), fld_s(&o.hdrs[i].1)));
    }
    if o.chunk_size != 0 {
        s.push_str(&format!(" size={}", o.chunk_size));
    }
    if o.flags != 0 {
        s.push_str(&format!(" flags={}", flag_names(o.flags)));
    }
    s
}

pub fn describe_model(m: &ModelOut) -> String {
    let mut s = format!(
        "{:?} method={:?} path={:?} version={} code={} reason={:?} headers={}",
        m.st, m.method, m.path, m.version, m.code, m.reason, m.nh
    );
    for i in 0..(m.nh as usize).min(MAXH) {
        s.push_str(&format!(" [{:?}:{:?}]", m.hdrs[i].0, m.hdrs[i].1));
    }
    if m.size != 0 {
        s.push_str(&format!(" size={}", m.size));
    }
    s
}

fn range_same(f: &Fld, r: (u32, u32)) -> bool {
    if !f.some || f.outside {
        return false;
    }
    if f.len() == 0 && r.0 == r.1 {
        return true;
    }
    f.s == r.0 && f.e == r.1
}

/// Model-free linear scan for the end of the head: offset just past the first empty line after
/// the start line (for parse_headers: the first empty line). `ws_empty_before`: with
/// allow_space_before_first_header_name, a line of only SP/HTAB that starts before this offset
/// (the first stored header's name, or everything if no header was stored) counts as empty.
pub fn scan_head_end(input: &[u8], has_start_line: bool, ws_empty_before: Option<u32>) -> Option<u32> {
    let mut i = 0usize;
    let n = input.len();
    if has_start_line {
        // leading empty lines
        loop {
            if i < n && input[i] == b'\n' {
                i += 1;
            } else if i + 1 < n && input[i] == b'\r' && input[i + 1] == b'\n' {
                i += 2;
            } else {
                break;
            }
        }
        // the start line
        while i < n && input[i] != b'\n' {
            i += 1;
        }
        if i >= n {
            return None;
        }
        i += 1;
    }
    loop {
        // at the first byte of a line
        let ls = i;
        if let Some(lim) = ws_empty_before {
            if (ls as u32) < lim {
                while i < n && (input[i] == b' ' || input[i] == b'\t') {
                    i += 1;
                }
            }
        }
        if i < n && input[i] == b'\n' {
            return Some(i as u32 + 1);
        }
        if i + 1 < n && input[i] == b'\r' && input[i + 1] == b'\n' {
            return Some(i as u32 + 2);
        }
        i = ls;
        while i < n && input[i] != b'\n' {
            i += 1;
        }
        if i >= n {
            return None;
        }
        i += 1;
    }
}

/// `n` is the offset just past a line consisting only of SP/HTAB and its line end.
fn ends_blank_line(input: &[u8], n: u32) -> bool {
    let n = n as usize;
    if n == 0 || n > input.len() || input[n - 1] != b'\n' {
        return false;
    }
    let mut i = n - 1;
    if i > 0 && input[i - 1] == b'\r' {
        i -= 1;
    }
    while i > 0 && (input[i - 1] == b' ' || input[i - 1] == b'\t') {
        i -= 1;
    }
    i == 0 || input[i - 1] == b'\n'
}

pub struct Checker {
    pub prop: String,
    pub armed: u32,
    pub caller: Caller,
    pub stats: Stats,
    pub violations: Vec<Violation>,
    pub nviol: u64,
    pub limit: usize,
    scratch: Vec<u8>,
    comp_set: Vec<Vec<u8>>,
    pub relation_tag: &'static str,
    /// (phase, task) currently executed by this checker (set by the runner)
    pub task_id: (u32, u32),
}

impl Checker {
    pub fn new(prop: &str, armed: u32, caller: Caller) -> Checker {
        Checker {
            prop: prop.to_string(),
            armed,
            caller,
            stats: Stats::default(),
            violations: Vec::new(),
            nviol: 0,
            limit: 8,
            scratch: Vec::new(),
            comp_set: crate::model::completion_set(),
            relation_tag: "none",
            task_id: (u32::MAX, u32::MAX),
        }
    }

    pub fn full(&self) -> bool {
        self.nviol as usize >= self.limit
    }

    pub fn violation(&mut self, what: String, lane: &Lane, input: &[u8], observed: String, expected: String, related: Option<(Lane, Vec<u8>, String)>) {
        self.nviol += 1;
        if self.violations.len() < self.limit {
            let relation = self.relation_tag.to_string();
            let preceding = self.caller.recent_calls();
            self.violations.push(Violation { what, lane: *lane, input: input.to_vec(), observed, expected, related, relation, preceding, task: self.task_id });
        }
    }

    /// Runs the subject on `input` and applies every armed single-execution oracle.
    /// `model`: the reference machine after `input` (None: no model for this space).
    /// `parent`: observation of a proper prefix of `input` under the same lane (streaming oracle).
    /// Returns the observation and whether every armed oracle was satisfied.
    pub fn eval(&mut self, lane: &Lane, input: &[u8], model: Option<&Model>, parent: Option<(&Obs, usize)>) -> (Obs, bool) {
        let o = self.caller.call(lane, input);
        self.stats.nodes += 1;
        if let Some(m) = model {
            let id = m.control_id();
            self.stats.control[id >> 6] |= 1 << (id & 63);
        }
        self.stats.max_len = self.stats.max_len.max(input.len() as u64);
        self.stats.record(&o);
        if self.stats.samples.len() < 4 && self.stats.nodes % 1013 == 1 {
            self.stats.samples.push(format!(
                "{{\"entry\":\"{}\",\"config\":\"{}\",\"capacity\":{},\"input\":\"{}\",\"impl\":\"{}\"}}",
                lane.entry.name(),
                config_names(lane.cfg),
                lane.cap,
                crate::json::esc(&printable(input)),
                crate::json::esc(&describe_obs(&o))
            ));
        }
        let ok = self.judge(lane, input, &o, model, parent);
        (o, ok)
    }

    pub fn judge(&mut self, lane: &Lane, input: &[u8], o: &Obs, model: Option<&Model>, parent: Option<(&Obs, usize)>) -> bool {
        let armed = self.armed;
        let mut ok = true;
        let mo = model.map(|m| m.out());
        let len = input.len() as u32;

        // a panic is a violation of whatever is being checked: no result was delivered
        if o.flags & F_PANIC != 0 {
            self.violation("the call panicked".into(), lane, input, describe_obs(o), "a normal return".into(), None);
            return false;
        }

        if armed & O_SAFE != 0 {
            let bad = o.flags & (F_N_TOO_BIG | F_WROTE_BEFORE);
            if bad != 0 {
                self.violation(format!("memory-safety monitor: {}", flag_names(bad)), lane, input, describe_obs(o), "n <= len, no write outside the array".into(), None);
                ok = false;
            }
        }

        if armed & O_ALLOC != 0 && o.allocs != 0 {
            self.violation(format!("{} heap allocation(s) during the call", o.allocs), lane, input, describe_obs(o), "0 allocator calls".into(), None);
            ok = false;
        }

        if armed & O_LINEAR != 0 {
            let c = &o.counters;
            let calls = c.next + c.peek + c.peek_ahead + c.peek_n + c.as_ref + c.slice + c.advance + c.set_cursor;
            let mut why = None;
            if c.new != 1 {
                why = Some(format!("{} cursors created over the buffer (expected exactly 1)", c.new));
            } else if c.set_cursor_backward != 0 {
                why = Some("cursor moved backward".to_string());
            } else if c.advance_bytes > len as u64 {
                why = Some(format!("cursor travelled {} bytes over a {}-byte buffer", c.advance_bytes, len));
            } else if calls > 16 * len as u64 + 128 {
                why = Some(format!("{} cursor operations on a {}-byte buffer", calls, len));
            }
            if let Some(w) = why {
                self.violation(w, lane, input, format!("{:?}", c), "one forward pass".into(), None);
                ok = false;
            }
        }

        if armed & O_ZEROCOPY != 0 {
            if let Some(w) = zero_copy(o, input) {
                self.violation(w, lane, input, describe_obs(o), "every non-empty slice inside the buffer (inside buf[..n] on Complete), in input order".into(), None);
                ok = false;
            }
        }

        if armed & O_HYGIENE != 0 {
            if let Some(w) = hygiene(lane, input, o) {
                self.violation(w, lane, input, describe_obs(o), "class-clean fields".into(), None);
                ok = false;
            }
        }

        if armed & O_STORAGE != 0 {
            let bad = o.flags & (F_SLICE_BAD | F_POISON_EXPOSED | F_STALE_EXPOSED | F_TOUCHED_BEYOND | F_RESTORE_BAD | F_SLOT_GARBAGE);
            if bad != 0 {
                self.violation(format!("header storage: {}", flag_names(bad)), lane, input, describe_obs(o), "exact count, untouched slots, restored slice".into(), None);
                ok = false;
            }
        }

        if armed & O_FRAMING != 0 && lane.entry != Entry::Chunk {
            let has_start = lane.entry != Entry::Headers;
            let sbf = lane.entry.takes_config() && lane.cfg & C_SPACE_BEFORE_FIRST != 0;
            match o.st {
                St::Complete(n) => {
                    let lim = if sbf {
                        Some(if o.nh == 0 || o.hdrs[0].0.outside { u32::MAX } else { o.hdrs[0].0.s })
                    } else {
                        None
                    };
                    let scan = scan_head_end(input, has_start, lim);
                    let folding = lane.entry.is_resp() && lane.entry.takes_config() && lane.cfg & C_FOLDING != 0;
                    let good = if sbf && folding {
                        // a line starting with SP/HTAB may also be the continuation of a header
                        // (which the ignore option may later drop): the scan cannot tell, so only
                        // require that n ends a blank line and that no exactly-empty line precedes it
                        let exact = scan_head_end(input, has_start, None);
                        ends_blank_line(input, n) && exact.map_or(true, |e| n <= e)
                    } else {
                        scan == Some(n)
                    };
                    if !good {
                        self.violation(
                            format!("Complete({}) but the first empty line after the start line ends at {:?}", n, scan),
                            lane, input, describe_obs(o), format!("Complete({:?})", scan), None,
                        );
                        ok = false;
                    }
                }
                St::Partial => {
                    if let Some(e) = scan_head_end(input, has_start, None) {
                        self.violation(
                            format!("Partial although an empty line ending at offset {} is in the buffer", e),
                            lane, input, describe_obs(o), "Complete or Err".into(), None,
                        );
                        ok = false;
                    }
                }
                St::Err(_) => {}
            }
        }
        if armed & O_FRAMING != 0 && lane.entry == Entry::Chunk {
            let crlf = input.windows(2).position(|w| w == b"\r\n").map(|p| p as u32 + 2);
            match o.st {
                St::Complete(n) if crlf != Some(n) => {
                    self.violation(format!("Complete({}) but the first CRLF ends at {:?}", n, crlf), lane, input, describe_obs(o), format!("{:?}", crlf), None);
                    ok = false;
                }
                St::Partial if crlf.is_some() => {
                    self.violation("Partial although a CRLF is in the buffer".into(), lane, input, describe_obs(o), "Complete or Err".into(), None);
                    ok = false;
                }
                _ => {}
            }
        }

        if let Some(mo) = &mo {
            self.stats.model_compared += 1;
            let same_class = std::mem::discriminant(&o.st) == std::mem::discriminant(&mo.st);
            if armed & O_FRAMING != 0 {
                if let (St::Complete(a), St::Complete(b)) = (o.st, mo.st) {
                    if a != b {
                        self.violation(format!("offset {} differs from the reference model's {}", a, b), lane, input, describe_obs(o), describe_model(mo), None);
                        ok = false;
                    }
                }
            }
            if armed & O_LANG != 0 {
                let mut why = None;
                if !same_class {
                    why = Some("status differs from the reference grammar".to_string());
                } else if let (St::Complete(a), St::Complete(b)) = (o.st, mo.st) {
                    if a != b {
                        why = Some("offset differs from the reference grammar".to_string());
                    } else {
                        why = fields_vs_model(lane, o, mo);
                    }
                }
                if let Some(w) = why {
                    self.violation(w, lane, input, describe_obs(o), describe_model(mo), None);
                    ok = false;
                }
            }
            if armed & O_STORAGE != 0 {
                if let (St::Complete(_), St::Complete(_)) = (o.st, mo.st) {
                    if let Some(w) = headers_vs_model(o, mo) {
                        self.violation(w, lane, input, describe_obs(o), describe_model(mo), None);
                        ok = false;
                    }
                }
                // TooManyHeaders exactly when the model says so
                let a = o.st == St::Err(Kind::TooManyHeaders);
                let b = mo.st == St::Err(Kind::TooManyHeaders);
                if a != b && (a || same_class) {
                    self.violation("capacity law: TooManyHeaders disagrees with the reference model".into(), lane, input, describe_obs(o), describe_model(mo), None);
                    ok = false;
                }
            }
            if armed & O_ERRKIND != 0 {
                // TooManyHeaders exactly when one more well-formed line than the array holds has
                // been completely received, and for no other reason
                let a = o.st == St::Err(Kind::TooManyHeaders);
                let b = mo.st == St::Err(Kind::TooManyHeaders);
                if a != b {
                    self.violation(
                        if a { "TooManyHeaders although no surplus header line has been completely received".into() } else { "a surplus header line was completely received but the result is not TooManyHeaders".into() },
                        lane, input, describe_obs(o), describe_model(mo), None,
                    );
                    ok = false;
                } else if let (St::Err(a), St::Err(b)) = (o.st, mo.st) {
                    if a != b {
                        self.violation(format!("error kind {:?}, first offending byte belongs to {:?}", a, b), lane, input, describe_obs(o), describe_model(mo), None);
                        ok = false;
                    }
                }
            }
        }

        if armed & O_STREAM != 0 {
            if let Some((p, plen)) = parent {
                if let Some(w) = streaming(p, o) {
                    let pin = input[..plen].to_vec();
                    let tag = std::mem::replace(&mut self.relation_tag, "prefix");
                    self.violation(w, lane, input, describe_obs(o), "consistent with the result on the prefix".into(), Some((*lane, pin, describe_obs(p))));
                    self.relation_tag = tag;
                    ok = false;
                }
            }
        }

        if armed & O_PARTIAL != 0 && o.st == St::Partial {
            if let Some(m) = model {
                ok &= self.honest_partial(lane, input, o, m);
            }
        }
        ok
    }

    /// C11: a Partial must be completable.
    fn honest_partial(&mut self, lane: &Lane, input: &[u8], o: &Obs, m: &Model) -> bool {
        let mut suffix = Vec::new();
        if m.status() == St::Partial {
            if !m.completion(&mut suffix) {
                // one of the two stated exceptions (undecodable target, header capacity)
                self.stats.completions_exempt += 1;
                return true;
            }
            self.scratch.clear();
            self.scratch.extend_from_slice(input);
            self.scratch.extend_from_slice(&suffix);
            let buf = std::mem::take(&mut self.scratch);
            let c = self.caller.call(lane, &buf);
            self.stats.completions_tried += 1;
            let good = matches!(c.st, St::Complete(_));
            if !good {
                self.violation(
                    format!("Partial, but the completion {:?} does not make it Complete", printable(&suffix)),
                    lane, input, describe_obs(o), "a buffer that can still become valid".into(),
                    Some((*lane, buf.clone(), describe_obs(&c))),
                );
            }
            self.scratch = buf;
            good
        } else if let St::Err(_) = m.status() {
            // the reference grammar has already rejected these bytes (its Err is absorbing): nothing
            // that can follow makes them an accepted head, whatever this implementation would go
            // on to answer — C11 speaks of heads the grammar accepts, and an implementation that
            // wrongly accepts a continuation must not make its own Partial look honest
            self.violation(
                "Partial, but the bytes received can no longer become an accepted head".into(),
                lane, input, describe_obs(o), format!("reference grammar: {:?} (only target UTF-8 validity and header capacity may be judged later, and the grammar defers them too)", m.status()), None,
            );
            false
        } else {
            // the model says Complete: try the whole finite completion set
            let set = std::mem::take(&mut self.comp_set);
            let mut good = false;
            for s in &set {
                self.scratch.clear();
                self.scratch.extend_from_slice(input);
                self.scratch.extend_from_slice(s);
                let buf = std::mem::take(&mut self.scratch);
                let c = self.caller.call(lane, &buf);
                self.scratch = buf;
                self.stats.completions_tried += 1;
                if matches!(c.st, St::Complete(_)) {
                    good = true;
                    break;
                }
            }
            self.comp_set = set;
            if !good {
                // (no capacity exception here: capacity is judged when the surplus header line
                // completes, and the model says it has — Partial at this point is not honest)
                self.violation(
                    "Partial, but no member of the completion set makes it Complete".into(),
                    lane, input, describe_obs(o), format!("model: {:?}", m.status()), None,
                );
            }
            good
        }
    }

    /// Relational oracle: two lanes must give the same caller-visible result on the same input
    /// (`shift`: offset of b's buffer inside a's, for the parse_headers lock-step).
    pub fn agree(&mut self, what: &str, la: &Lane, a: &Obs, lb: &Lane, b: &Obs, input: &[u8]) -> bool {
        self.stats.pairs_compared += 1;
        if a.same_result(b) {
            return true;
        }
        self.violation(what.to_string(), la, input, describe_obs(a), describe_obs(b), Some((*lb, input.to_vec(), describe_obs(b))));
        false
    }
}

fn streaming(p: &Obs, c: &Obs) -> Option<String> {
    match p.st {
        St::Complete(_) => {
            if c.st != p.st {
                return Some(format!("prefix gave {:?}, extension gives {:?}", p.st, c.st));
            }
            if !p.same_fields(c) || !p.same_headers(c) {
                return Some("Complete result changed when bytes were appended".into());
            }
        }
        St::Err(_) => {
            if c.st != p.st {
                return Some(format!("prefix gave {:?}, extension gives {:?}", p.st, c.st));
            }
        }
        St::Partial => {
            let chk = |a: &Fld, b: &Fld| !a.some || a.same(b);
            if !chk(&p.method, &c.method) || !chk(&p.path, &c.path) || !chk(&p.reason, &c.reason) {
                return Some("a field reported alongside Partial changed later".into());
            }
            if (p.version.is_some() && p.version != c.version) || (p.code.is_some() && p.code != c.code) {
                return Some("version/code reported alongside Partial changed later".into());
            }
        }
    }
    None
}

fn zero_copy(o: &Obs, input: &[u8]) -> Option<String> {
    if o.flags & F_OUTSIDE != 0 {
        return Some("a non-empty slice lies outside the input buffer".into());
    }
    if let (St::Complete(_), Some(_), true) = (o.st, o.code, o.reason.some && !o.reason.outside && o.reason.len() > 0) {
        // a response: the reason lies behind the status code and its delimiter, it never covers
        // the code's own bytes
        let mut i = 0;
        while i < input.len() && (input[i] == b'\r' || input[i] == b'\n') {
            i += 1;
        }
        i += 8;
        while i < input.len() && input[i] == b' ' {
            i += 1;
        }
        if (o.reason.s as usize) < i + 4 {
            return Some("the reason slice begins inside or directly at the status code".into());
        }
    }
    if let St::Complete(n) = o.st {
        // a header's name is followed by its value: the colon lies between them
        for i in 0..(o.nh as usize).min(MAXH) {
            let (nf, vf) = (&o.hdrs[i].0, &o.hdrs[i].1);
            if nf.outside || vf.outside || vf.len() == 0 || nf.len() == 0 {
                continue;
            }
            if nf.e <= vf.s && (vf.s as usize) <= input.len() && vf.e <= n && !input[nf.e as usize..vf.s as usize].contains(&b':') {
                return Some(format!("header {}: no colon between the name and the value slice (value shifted onto its delimiter)", i));
            }
        }
    }
    if let St::Complete(n) = o.st {
        let mut last = 0u32;
        let mut order = |name: &str, f: &Fld| -> Option<String> {
            if !f.some || f.len() == 0 {
                return None;
            }
            if f.e > n {
                return Some(format!("{} reaches past the consumed head buf[..{}]", name, n));
            }
            if f.s < last {
                return Some(format!("{} overlaps or precedes the field before it", name));
            }
            last = f.e;
            None
        };
        if let Some(w) = order("method", &o.method) {
            return Some(w);
        }
        if let Some(w) = order("path", &o.path) {
            return Some(w);
        }
        if let Some(w) = order("reason", &o.reason) {
            return Some(w);
        }
        for i in 0..(o.nh as usize).min(MAXH) {
            if let Some(w) = order("header name", &o.hdrs[i].0) {
                return Some(w);
            }
            if let Some(w) = order("header value", &o.hdrs[i].1) {
                return Some(w);
            }
        }
    }
    None
}

fn hygiene(lane: &Lane, input: &[u8], o: &Obs) -> Option<String> {
    if o.flags & F_BAD_UTF8 != 0 {
        return Some("a &str field is not valid UTF-8".into());
    }
    let n = match o.st {
        St::Complete(n) => n as usize,
        _ => return None,
    };
    if lane.entry == Entry::Chunk {
        return None;
    }
    if o.flags & F_OUTSIDE != 0 || n > input.len() {
        return None; // C04's / C01's business
    }
    let head = &input[..n];
    for (i, &b) in head.iter().enumerate() {
        if b == 0 {
            return Some(format!("NUL byte at offset {} of the consumed head", i));
        }
        if b == b'\r' && head.get(i + 1) != Some(&b'\n') {
            return Some(format!("CR not followed by LF at offset {} of the consumed head", i));
        }
    }
    let sl = |f: &Fld| &input[f.s as usize..f.e as usize];
    if lane.entry.is_req() {
        if !o.method.some || o.method.len() == 0 || !sl(&o.method).iter().all(|&b| is_tchar(b)) {
            return Some("method is not a non-empty tchar run".into());
        }
        if !o.path.some || o.path.len() == 0 || !sl(&o.path).iter().all(|&b| is_target_byte(b)) || std::str::from_utf8(sl(&o.path)).is_err() {
            return Some("path is not a non-empty valid-UTF-8 run of target bytes".into());
        }
        if !matches!(o.version, Some(0) | Some(1)) {
            return Some("version is not 0 or 1".into());
        }
    }
    if lane.entry.is_resp() {
        if !matches!(o.version, Some(0) | Some(1)) {
            return Some("version is not 0 or 1".into());
        }
        // locate the three digits: leading empty lines, 8 version bytes, SP run
        let mut i = 0;
        while i < head.len() && (head[i] == b'\r' || head[i] == b'\n') {
            i += 1;
        }
        i += 8;
        while i < head.len() && head[i] == b' ' {
            i += 1;
        }
        let d = head.get(i..i + 3);
        let val = d.and_then(|d| if d.iter().all(|b| b.is_ascii_digit()) { Some(d.iter().fold(0u16, |a, b| a * 10 + (b - b'0') as u16)) } else { None });
        if o.code.is_none() || val != o.code {
            return Some(format!("code {:?} is not the value of the three digits {:?}", o.code, d));
        }
        if !o.reason.some || !sl(&o.reason).iter().all(|&b| is_reason_byte(b) && b < 0x80) {
            return Some("reason contains a byte outside HTAB / SP / 0x21-0x7E".into());
        }
    }
    let folding = lane.entry.is_resp() && lane.entry.takes_config() && lane.cfg & C_FOLDING != 0;
    for i in 0..(o.nh as usize).min(MAXH) {
        let (nf, vf) = (&o.hdrs[i].0, &o.hdrs[i].1);
        if nf.outside || vf.outside {
            continue;
        }
        if nf.len() == 0 || !sl(nf).iter().all(|&b| is_tchar(b)) {
            return Some(format!("header {} name is not a non-empty tchar run", i));
        }
        let v = sl(vf);
        if let (Some(&f), Some(&l)) = (v.first(), v.last()) {
            if f == b' ' || f == b'\t' || l == b' ' || l == b'\t' {
                return Some(format!("header {} value starts or ends with SP/HTAB", i));
            }
        }
        let mut j = 0;
        while j < v.len() {
            let b = v[j];
            if is_value_byte(b) {
                j += 1;
                continue;
            }
            if folding {
                // CRLF or LF, immediately followed by SP/HTAB
                let k = if b == b'\r' && v.get(j + 1) == Some(&b'\n') {
                    j + 2
                } else if b == b'\n' {
                    j + 1
                } else {
                    return Some(format!("header {} value contains byte {:#04x}", i, b));
                };
                if !matches!(v.get(k), Some(&b' ') | Some(&b'\t')) {
                    return Some(format!("header {} value contains a line break not followed by SP/HTAB", i));
                }
                j = k;
                continue;
            }
            return Some(format!("header {} value contains byte {:#04x}", i, b));
        }
    }
    None
}

fn fields_vs_model(lane: &Lane, o: &Obs, m: &ModelOut) -> Option<String> {
    if lane.entry.is_req() {
        if !range_same(&o.method, m.method) {
            return Some("method is not the byte run the grammar delimits".into());
        }
        if !range_same(&o.path, m.path) {
            return Some("path is not the byte run the grammar delimits".into());
        }
        if o.version != Some(m.version) {
            return Some("version is not the final digit".into());
        }
    } else if lane.entry.is_resp() {
        if o.version != Some(m.version) {
            return Some("version is not the final digit".into());
        }
        if o.code != Some(m.code) {
            return Some("code is not the value of the digits".into());
        }
        let good = match m.reason {
            None => o.reason.some && !o.reason.outside && o.reason.len() == 0,
            Some(r) => range_same(&o.reason, r),
        };
        if !good {
            return Some("reason is not the text the grammar delimits".into());
        }
    } else if lane.entry == Entry::Chunk {
        if o.chunk_size as u128 != m.size {
            return Some("size is not the exact value of the digits".into());
        }
        return None;
    }
    headers_vs_model(o, m)
}

fn headers_vs_model(o: &Obs, m: &ModelOut) -> Option<String> {
    if o.nh != m.nh {
        return Some(format!("{} headers reported, the reference has {}", o.nh, m.nh));
    }
    for i in 0..(o.nh as usize).min(MAXH) {
        if !range_same(&o.hdrs[i].0, m.hdrs[i].0) {
            return Some(format!("header {} name is not the bytes before the colon", i));
        }
        if !range_same(&o.hdrs[i].1, m.hdrs[i].1) {
            return Some(format!("header {} value is not the trimmed bytes after the colon", i));
        }
    }
    if o.nh as usize > MAXH && o.hash != m.hash {
        return Some("header ranges differ from the reference (hash over all headers)".into());
    }
    None
}
