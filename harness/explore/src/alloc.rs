//! Counting global allocator: per-thread number of allocator calls (alloc, realloc, alloc_zeroed),
//! read before and after each call into the subject (C19).

use std::alloc::{GlobalAlloc, Layout, System};
use std::cell::Cell;

thread_local! {
    static ALLOCS: Cell<u64> = const { Cell::new(0) };
}

pub struct Counting;

// SAFETY: forwards to System; the counter is a const-initialised thread-local Cell (no allocation)
unsafe impl GlobalAlloc for Counting {
    unsafe fn alloc(&self, l: Layout) -> *mut u8 {
        let _ = ALLOCS.try_with(|c| c.set(c.get() + 1));
        System.alloc(l)
    }
    unsafe fn dealloc(&self, p: *mut u8, l: Layout) {
        System.dealloc(p, l)
    }
    unsafe fn alloc_zeroed(&self, l: Layout) -> *mut u8 {
        let _ = ALLOCS.try_with(|c| c.set(c.get() + 1));
        System.alloc_zeroed(l)
    }
    unsafe fn realloc(&self, p: *mut u8, l: Layout, n: usize) -> *mut u8 {
        let _ = ALLOCS.try_with(|c| c.set(c.get() + 1));
        System.realloc(p, l, n)
    }
}

#[inline]
pub fn count() -> u64 {
    ALLOCS.with(|c| c.get())
}
