//! Replay artefacts: one JSON file per violation, re-executable without the explorer.

use crate::call::*;
use crate::journal::{Journal, HDR, MAX_SLOTS, SLOT};
use crate::json;
use crate::model::Model;
use crate::oracle::*;
use crate::s1::{run_tree, Companions, TreeSpec};
use std::sync::Arc;

fn fnv_bytes(b: &[u8]) -> u64 {
    let mut h = 0xcbf29ce484222325u64;
    for &x in b {
        h ^= x as u64;
        h = h.wrapping_mul(0x100000001b3);
    }
    h
}

fn lane_fields(prefix: &str, l: &Lane) -> Vec<(String, String)> {
    let (pk, po) = match l.place {
        crate::arena::Place::EndFlush => (0, 0),
        crate::arena::Place::StartFlush => (1, 0),
        crate::arena::Place::Mid(o) => (2, o),
        crate::arena::Place::Hostile(o) => (3, o),
    };
    vec![
        (format!("{prefix}entry"), (l.entry as u8).to_string()),
        (format!("{prefix}entry_name"), json::s(l.entry.name())),
        (format!("{prefix}config"), l.cfg.to_string()),
        (format!("{prefix}config_names"), json::s(&config_names(l.cfg))),
        (format!("{prefix}capacity"), l.cap.to_string()),
        (format!("{prefix}backend"), (l.backend as u8).to_string()),
        (format!("{prefix}backend_name"), json::s(l.backend.name())),
        (format!("{prefix}place"), pk.to_string()),
        (format!("{prefix}place_off"), po.to_string()),
    ]
}

/// The build profile of this binary: a violation is replayed by a binary of the same profile.
pub fn profile_name() -> &'static str {
    static NAME: std::sync::OnceLock<&'static str> = std::sync::OnceLock::new();
    NAME.get_or_init(|| {
        if cfg!(debug_assertions) {
            return "vdbg";
        }
        // (main installs a silent panic hook before anything else runs)
        let x: u8 = std::hint::black_box(255);
        if std::panic::catch_unwind(move || std::hint::black_box(x + std::hint::black_box(1))).is_err() {
            "vovf"
        } else {
            "release"
        }
    })
}

/// Tier of the current `explore run` (recorded in replay files so that the enumeration task that
/// found a violation can be re-run).
pub static RUN_TIER: std::sync::OnceLock<String> = std::sync::OnceLock::new();

pub fn write_replay(dir: &str, prop: &str, armed: u32, v: &Violation) -> String {
    let mut kv: Vec<(String, String)> = vec![
        ("property".into(), json::s(prop)),
        ("kind".into(), json::s(if v.relation.starts_with("scan") { "scan" } else if v.relation == "family" || v.relation == "scaling" { "family" } else { "parse" })),
        ("relation".into(), json::s(&v.relation)),
        ("armed".into(), armed.to_string()),
        ("profile".into(), json::s(profile_name())),
        ("what".into(), json::s(&v.what)),
    ];
    kv.extend(lane_fields("", &v.lane));
    if v.relation == "family" || v.relation == "scaling" {
        kv.push(("descriptor".into(), json::s(&String::from_utf8_lossy(&v.input))));
    }
    kv.push(("input_hex".into(), json::s(&hex(&v.input))));
    kv.push(("input".into(), json::s(&printable(&v.input))));
    kv.push(("observed".into(), json::s(&v.observed)));
    kv.push(("expected".into(), json::s(&v.expected)));
    if let Some((l, i, o)) = &v.related {
        kv.extend(lane_fields("related_", l));
        kv.push(("related_input_hex".into(), json::s(&hex(i))));
        kv.push(("related_input".into(), json::s(&printable(i))));
        kv.push(("related_observed".into(), json::s(o)));
    }
    if v.task.0 != u32::MAX {
        kv.push(("tier".into(), json::s(RUN_TIER.get().map(|s| s.as_str()).unwrap_or("quick"))));
        kv.push(("phase".into(), v.task.0.to_string()));
        kv.push(("task".into(), v.task.1.to_string()));
    }
    // the calls this worker made just before: replayed first if the case does not reproduce alone
    kv.push(("preceding_count".into(), v.preceding.len().to_string()));
    for (i, (l, inp)) in v.preceding.iter().enumerate() {
        kv.extend(lane_fields(&format!("preceding{i}_"), l));
        kv.push((format!("preceding{i}_input_hex"), json::s(&hex(inp))));
    }
    let body = format!("{{{}}}", kv.iter().map(|(k, v)| format!("\"{}\":{}", k, v)).collect::<Vec<_>>().join(",\n "));
    let mut key = v.input.clone();
    key.extend_from_slice(&v.lane.encode());
    key.extend_from_slice(v.what.as_bytes());
    let path = format!("{}/{}-{:016x}.json", dir, prop, fnv_bytes(&key));
    std::fs::write(&path, body).expect("write replay");
    path
}

fn lane_from(text: &str, prefix: &str) -> Option<Lane> {
    let g = |k: &str| json::get_num(text, &format!("{prefix}{k}"));
    Some(Lane {
        entry: Entry::from_u8(g("entry")? as u8),
        cfg: g("config")? as u8,
        cap: g("capacity")? as u32,
        backend: Backend::from_u8(g("backend")? as u8),
        place: match g("place")? {
            0 => crate::arena::Place::EndFlush,
            1 => crate::arena::Place::StartFlush,
            2 => crate::arena::Place::Mid(g("place_off")? as usize),
            _ => crate::arena::Place::Hostile(g("place_off")? as usize),
        },
    })
}

/// Re-executes a replay file in this (fresh) process. Exit code 1: the violation reproduces;
/// 0: it does not; a crash of the subject kills this process, which the driver also counts as
/// reproduced.
pub fn replay_file(path: &str) -> i32 {
    let text = match std::fs::read_to_string(path) {
        Ok(t) => t,
        Err(e) => {
            eprintln!("cannot read {}: {}", path, e);
            return 2;
        }
    };
    let prop = json::get_str(&text, "property").unwrap_or_default();
    let kind = json::get_str(&text, "kind").unwrap_or_else(|| "parse".into());
    if kind == "scan" {
        return crate::s3::replay(&text);
    }
    if kind == "family" {
        return crate::s8::replay(&text);
    }
    let armed = json::get_num(&text, "armed").unwrap_or(0) as u32;
    let relation = json::get_str(&text, "relation").unwrap_or_else(|| "none".into());
    let lane = lane_from(&text, "").expect("lane");
    let input = json::unhex(&json::get_str(&text, "input_hex").expect("input_hex"));
    let journal = Arc::new(Journal::anonymous());
    let caller = Caller::new(journal.slot(0), 2 * input.len() + 4 * 4096, (lane.cap as usize).max(64) + 64);
    let mut ck = Checker::new(&prop, armed, caller);
    ck.limit = 100;
    if !lane.backend.force() {
        eprintln!("backend {} is not available here", lane.backend.name());
        return 2;
    }
    println!("replaying {} ({})", path, prop);
    println!("  call     : {}", lane.describe());
    println!("  input    : {}", printable(&input));
    let mut m = Model::for_entry(lane.entry, lane.cfg, lane.cap);
    m.feed(&input);
    if let Some(code) = evaluate(&mut ck, &text, &lane, &input, &m, &relation, true) {
        return code;
    }
    if ck.nviol == 0 {
        // not reproduced by the call alone: the subject may keep state between calls (a static, a
        // thread-local, something keyed by the buffer address). Re-run the calls this worker made
        // just before, in order, in this process, and then the case again.
        let n = json::get_num(&text, "preceding_count").unwrap_or(0) as usize;
        if n > 0 {
            println!("  not reproduced by this call alone; replaying the {} calls that preceded it:", n);
            for i in 0..n {
                if let Some(l) = lane_from(&text, &format!("preceding{i}_")) {
                    let inp = json::unhex(&json::get_str(&text, &format!("preceding{i}_input_hex")).unwrap_or_default());
                    if i + 1 == n && inp == input && l.encode() == lane.encode() {
                        // the recorded list ends with the failing call itself
                        continue;
                    }
                    l.backend.force();
                    let o = ck.caller.call(&l, &inp);
                    println!("    {} on {} -> {}", l.describe(), printable(&inp), describe_obs(&o));
                }
            }
            lane.backend.force();
            if let Some(code) = evaluate(&mut ck, &text, &lane, &input, &m, &relation, false) {
                return code;
            }
            if ck.nviol > 0 {
                println!("  (reproduces only after the preceding calls: the outcome of a call depends on state that earlier calls left behind)");
            }
        }
    }
    if ck.nviol == 0 {
        // last resort: the whole enumeration task that found it, from its start, single-threaded,
        // with a fresh caller (deterministic call order)
        if let (Some(tier), Some(ph), Some(ta)) = (json::get_str(&text, "tier"), json::get_num(&text, "phase"), json::get_num(&text, "task")) {
            println!("  still not reproduced; re-running enumeration task {}/{} of the {} plan of {} from its start:", ph, ta, tier, prop);
            let what = json::get_str(&text, "what").unwrap_or_default();
            let mut found = crate::run_task(&prop, &tier, ph as usize, ta as usize);
            if !found.iter().any(|v| v.what == what) {
                println!("  still not reproduced; re-running every task of phase {} in order on one caller (single-threaded):", ph);
                found = crate::run_task(&prop, &tier, ph as usize, usize::MAX);
            }
            if !found.iter().any(|v| v.what == what) {
                println!("  still not reproduced; re-running phases 0..={} of the plan in order on one caller (single-threaded, stops at the first violation):", ph);
                found = crate::run_sequential(&prop, &tier, ph as usize);
            }
            let same: Vec<&Violation> = found.iter().filter(|v| v.what == what && v.input == input).collect();
            let pick: Vec<&Violation> = if same.is_empty() { found.iter().filter(|v| v.what == what).collect() } else { same };
            if let Some(v) = pick.first() {
                println!("  (reproduces when the enumeration is re-run from its start: the outcome of a call depends on state that earlier calls left behind)");
                println!("  VIOLATED : {}", v.what);
                println!("    call    : {} on {}", v.lane.describe(), printable(&v.input));
                println!("    observed: {}", v.observed);
                println!("    expected: {}", v.expected);
                return 1;
            }
        }
    }
    if ck.nviol > 0 {
        for v in &ck.violations {
            println!("  VIOLATED : {}", v.what);
            println!("    observed: {}", v.observed);
            println!("    expected: {}", v.expected);
            if let Some((l, i, o)) = &v.related {
                println!("    related : {} on {} -> {}", l.describe(), printable(i), o);
            }
        }
        1
    } else {
        println!("  no armed oracle fails on this case");
        0
    }
}

fn evaluate(ck: &mut Checker, text: &str, lane: &Lane, input: &[u8], m: &Model, relation: &str, verbose: bool) -> Option<i32> {
    let lane = *lane;
    match relation {
        "none" | "crash" => {
            let (o, _) = ck.eval(&lane, input, Some(m), None);
            if verbose {
                println!("  observed : {}", describe_obs(&o));
                println!("  model    : {}", describe_model(&m.out()));
            }
        }
        "prefix" => {
            let pin = json::unhex(&json::get_str(text, "related_input_hex").unwrap_or_default());
            let p = ck.caller.call(&lane, &pin);
            if verbose {
                println!("  prefix   : {} -> {}", printable(&pin), describe_obs(&p));
            }
            let (o, _) = ck.eval(&lane, input, Some(m), Some((&p, pin.len())));
            if verbose {
                println!("  observed : {}", describe_obs(&o));
            }
        }
        "backends" | "alignment" => {
            return Some(crate::s2::replay_agreement(ck, &lane, input, relation));
        }
        tag => {
            let spec = TreeSpec { lane, ctx: input.to_vec(), alphabet: vec![], depth: 0, extra: 0, companions: Companions::from_tag(tag) };
            run_tree(ck, &spec, None);
        }
    }
    None
}

/// After a crash or watchdog kill: every journal slot that was inside a call becomes a replay file
/// (relation "crash"); prints one path per line.
pub fn journal_to_replays(journal: &str, dir: &str, prop: &str) {
    let data = std::fs::read(journal).expect("journal");
    let _ = std::fs::create_dir_all(dir);
    for i in 0..MAX_SLOTS {
        let s = &data[i * SLOT..(i + 1) * SLOT];
        let seq = u64::from_le_bytes(s[0..8].try_into().unwrap());
        let in_call = u64::from_le_bytes(s[8..16].try_into().unwrap());
        if seq == 0 || in_call == 0 {
            continue;
        }
        let is_scan = s[16] >= 100;
        let mut lb = s[16..32].to_vec();
        if is_scan {
            lb[0] = Entry::Chunk as u8;
        }
        let lane = Lane::decode(&lb);
        let kind = u32::from_le_bytes(s[32..36].try_into().unwrap());
        let len = u32::from_le_bytes(s[36..40].try_into().unwrap()) as usize;
        if kind == 1 {
            let desc = String::from_utf8_lossy(&s[HDR..HDR + len.min(SLOT - HDR)]).to_string();
            let path = format!("{}/{}-crash-slot{}.json", dir, prop, i);
            let body = format!("{{\"property\":{},\"kind\":\"family\",\"relation\":\"crash\",\"what\":\"the process died inside this call\",\"descriptor\":{}}}", json::s(prop), json::s(&desc));
            std::fs::write(&path, body).expect("write");
            println!("{}", path);
            continue;
        }
        if len > SLOT - HDR {
            continue;
        }
        let input = s[HDR..HDR + len].to_vec();
        let v = Violation {
            what: "the process died (signal or watchdog) inside this call".into(),
            lane,
            input,
            observed: "no return".into(),
            expected: "Ok(Complete) / Ok(Partial) / Err".into(),
            related: None,
            relation: if is_scan { "scan-crash".into() } else { "crash".into() },
            preceding: Vec::new(),
            task: (u32::MAX, u32::MAX),
        };
        println!("{}", write_replay(dir, prop, 0, &v));
    }
}
