//! Bit-exact software emulation of the 13 AArch64 NEON intrinsics that httparse's neon.rs uses,
//! on plain arrays, following Arm's pseudo-code. Trusted base of the NEON leg of C12.
//!
//! `vld1q_u8` really reads 16 bytes through the pointer, so an over-read of the scanner still hits
//! the guard page behind the buffer.

#![allow(non_camel_case_types, clippy::missing_safety_doc)]

#[derive(Clone, Copy, Debug, PartialEq, Eq)]
pub struct uint8x16_t(pub [u8; 16]);

#[derive(Clone, Copy, Debug, PartialEq, Eq)]
pub struct uint64x2_t(pub [u64; 2]);

#[inline(always)]
pub unsafe fn vld1q_u8(ptr: *const u8) -> uint8x16_t {
    uint8x16_t(core::ptr::read_unaligned(ptr as *const [u8; 16]))
}

#[inline(always)]
pub unsafe fn vdupq_n_u8(v: u8) -> uint8x16_t {
    uint8x16_t([v; 16])
}

#[inline(always)]
fn map2(a: uint8x16_t, b: uint8x16_t, f: impl Fn(u8, u8) -> u8) -> uint8x16_t {
    let mut r = [0u8; 16];
    for i in 0..16 {
        r[i] = f(a.0[i], b.0[i]);
    }
    uint8x16_t(r)
}

#[inline(always)]
pub unsafe fn vandq_u8(a: uint8x16_t, b: uint8x16_t) -> uint8x16_t {
    map2(a, b, |x, y| x & y)
}

#[inline(always)]
pub unsafe fn vorrq_u8(a: uint8x16_t, b: uint8x16_t) -> uint8x16_t {
    map2(a, b, |x, y| x | y)
}

/// BIC: a AND NOT b
#[inline(always)]
pub unsafe fn vbicq_u8(a: uint8x16_t, b: uint8x16_t) -> uint8x16_t {
    map2(a, b, |x, y| x & !y)
}

#[inline(always)]
pub unsafe fn vmvnq_u8(a: uint8x16_t) -> uint8x16_t {
    map2(a, a, |x, _| !x)
}

#[inline(always)]
pub unsafe fn vceqq_u8(a: uint8x16_t, b: uint8x16_t) -> uint8x16_t {
    map2(a, b, |x, y| if x == y { 0xFF } else { 0 })
}

/// CMHS with swapped operands: a <= b (unsigned)
#[inline(always)]
pub unsafe fn vcleq_u8(a: uint8x16_t, b: uint8x16_t) -> uint8x16_t {
    map2(a, b, |x, y| if x <= y { 0xFF } else { 0 })
}

/// USHR by immediate (the real intrinsic takes the shift as a legacy const generic written in
/// argument position, which is how neon.rs calls it)
#[inline(always)]
pub unsafe fn vshrq_n_u8(a: uint8x16_t, n: i32) -> uint8x16_t {
    assert!((1..=8).contains(&n));
    map2(a, a, |x, _| if n == 8 { 0 } else { x >> n })
}

/// TBL, one table register: out-of-range indices (> 15) give 0
#[inline(always)]
pub unsafe fn vqtbl1q_u8(t: uint8x16_t, idx: uint8x16_t) -> uint8x16_t {
    let mut r = [0u8; 16];
    for i in 0..16 {
        let j = idx.0[i] as usize;
        r[i] = if j < 16 { t.0[j] } else { 0 };
    }
    uint8x16_t(r)
}

#[inline(always)]
pub unsafe fn vreinterpretq_u64_u8(a: uint8x16_t) -> uint64x2_t {
    let mut lo = [0u8; 8];
    let mut hi = [0u8; 8];
    lo.copy_from_slice(&a.0[..8]);
    hi.copy_from_slice(&a.0[8..]);
    // AArch64 is little-endian in every configuration Rust supports for these intrinsics
    uint64x2_t([u64::from_le_bytes(lo), u64::from_le_bytes(hi)])
}

#[inline(always)]
pub unsafe fn vgetq_lane_u64<const N: i32>(v: uint64x2_t) -> u64 {
    v.0[N as usize]
}
