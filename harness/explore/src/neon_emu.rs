// placeholder
