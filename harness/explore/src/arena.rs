//! Guard-page arenas: every input buffer and every header array the subject sees is placed flush
//! against a PROT_NONE page, so that a single byte read past the buffer, or a single header
//! written past the array, is a SIGSEGV instead of a silent success.

use std::ptr;

pub const PAGE: usize = 4096;

pub struct Arena {
    /// start of the mapping (a PROT_NONE page)
    map: *mut u8,
    /// start of the read/write region
    rw: *mut u8,
    /// size of the read/write region (multiple of PAGE)
    size: usize,
}

unsafe impl Send for Arena {}

#[derive(Clone, Copy, PartialEq, Eq, Debug, Hash)]
pub enum Place {
    /// last byte of the data is the last byte before the trailing guard page
    EndFlush,
    /// first byte of the data is the first byte after the leading guard page
    StartFlush,
    /// data starts `off` bytes into the second half of the region (for alignment sweeps;
    /// no guard adjacency), surrounded by 0xAA bytes (outside every byte class)
    Mid(usize),
    /// like Mid, but surrounded by `a` bytes, which belong to every byte class: a scanner that
    /// looks at a byte before or behind the buffer keeps going instead of stopping, so that an
    /// over-read which stays inside mapped memory still changes the result
    Hostile(usize),
}

impl Arena {
    pub fn new(size: usize) -> Arena {
        let size = (size + PAGE - 1) / PAGE * PAGE;
        // SAFETY: plain anonymous mapping
        unsafe {
            let map = libc::mmap(
                ptr::null_mut(),
                size + 2 * PAGE,
                libc::PROT_NONE,
                libc::MAP_PRIVATE | libc::MAP_ANONYMOUS,
                -1,
                0,
            );
            assert!(map != libc::MAP_FAILED, "mmap failed");
            let map = map as *mut u8;
            let rw = map.add(PAGE);
            let r = libc::mprotect(rw as *mut _, size, libc::PROT_READ | libc::PROT_WRITE);
            assert_eq!(r, 0, "mprotect failed");
            // deterministic, hostile surroundings
            ptr::write_bytes(rw, 0xAA, size);
            Arena { map, rw, size }
        }
    }

    pub fn end(&self) -> *mut u8 {
        // SAFETY: within the mapping
        unsafe { self.rw.add(self.size) }
    }

    /// Pointer at which `len` bytes would be placed.
    pub fn slot(&self, len: usize, place: Place) -> *mut u8 {
        assert!(len <= self.size);
        // SAFETY: within the mapping
        unsafe {
            match place {
                Place::EndFlush => self.rw.add(self.size - len),
                Place::StartFlush => self.rw,
                Place::Mid(off) | Place::Hostile(off) => {
                    // page-aligned: Mid(PAGE - k) makes the data straddle a page boundary k bytes in
                    let base = (self.size / 2) & !(PAGE - 1);
                    assert!(base + off + len <= self.size);
                    self.rw.add(base + off)
                }
            }
        }
    }

    /// Copies `data` into the arena; the returned slice is valid until the next placement.
    pub fn place(&mut self, data: &[u8], place: Place) -> &'static [u8] {
        let p = self.slot(data.len(), place);
        // SAFETY: slot() checked the bounds; the arena outlives every use (threads own it)
        unsafe {
            // what lies around the buffer is part of the (replayable) test case: always the same
            let fill = if let Place::Hostile(_) = place { b'a' } else { 0xAA };
            let before = (p as usize - self.rw as usize).min(64);
            ptr::write_bytes(p.sub(before), fill, before);
            let after = (self.end() as usize - p as usize - data.len()).min(64);
            ptr::write_bytes(p.add(data.len()), fill, after);
            ptr::copy_nonoverlapping(data.as_ptr(), p, data.len());
            std::slice::from_raw_parts(p, data.len())
        }
    }
}

impl Drop for Arena {
    fn drop(&mut self) {
        // SAFETY: unmapping what new() mapped
        unsafe {
            libc::munmap(self.map as *mut _, self.size + 2 * PAGE);
        }
    }
}
