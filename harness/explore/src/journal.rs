//! Crash journal: each worker thread owns a slot in a MAP_SHARED file and records the call it is
//! about to make *before* making it. If the process dies (SIGSEGV on a guard page, abort, kill by
//! the watchdog) the driver turns the slots into replay files — the faulting input is never lost.
//!
//! Slot layout (SLOT bytes): seq u64 | in_call u64 | lane 16 bytes | kind u32 | len u32 | payload
//!   kind 0: payload = input bytes (truncated to PAYLOAD); kind 1: payload = generator descriptor

use std::fs::OpenOptions;
use std::os::unix::io::AsRawFd;
use std::path::Path;
use std::ptr;
use std::sync::atomic::{AtomicU64, Ordering};

pub const SLOT: usize = 8192;
pub const HDR: usize = 40;
pub const PAYLOAD: usize = SLOT - HDR;
pub const MAX_SLOTS: usize = 64;

pub struct Journal {
    base: *mut u8,
}

unsafe impl Send for Journal {}
unsafe impl Sync for Journal {}

pub struct Slot {
    p: *mut u8,
}

unsafe impl Send for Slot {}

impl Journal {
    pub fn create(path: &Path) -> Journal {
        if let Some(d) = path.parent() {
            let _ = std::fs::create_dir_all(d);
        }
        let f = OpenOptions::new().read(true).write(true).create(true).truncate(true).open(path).expect("journal file");
        f.set_len((SLOT * MAX_SLOTS) as u64).expect("journal size");
        // SAFETY: mapping a file we just sized
        let base = unsafe {
            libc::mmap(
                ptr::null_mut(),
                SLOT * MAX_SLOTS,
                libc::PROT_READ | libc::PROT_WRITE,
                libc::MAP_SHARED,
                f.as_raw_fd(),
                0,
            )
        };
        assert!(base != libc::MAP_FAILED);
        Journal { base: base as *mut u8 }
    }

    pub fn anonymous() -> Journal {
        // SAFETY: plain anonymous mapping
        let base = unsafe {
            libc::mmap(
                ptr::null_mut(),
                SLOT * MAX_SLOTS,
                libc::PROT_READ | libc::PROT_WRITE,
                libc::MAP_PRIVATE | libc::MAP_ANONYMOUS,
                -1,
                0,
            )
        };
        assert!(base != libc::MAP_FAILED);
        Journal { base: base as *mut u8 }
    }

    pub fn slot(&self, i: usize) -> Slot {
        assert!(i < MAX_SLOTS);
        // SAFETY: in bounds
        Slot { p: unsafe { self.base.add(i * SLOT) } }
    }

    /// (seq, in_call) of slot i, for the watchdog
    pub fn progress(&self, i: usize) -> (u64, u64) {
        // SAFETY: in bounds, 8-aligned
        unsafe {
            let p = self.base.add(i * SLOT) as *const AtomicU64;
            ((*p).load(Ordering::Relaxed), (*p.add(1)).load(Ordering::Relaxed))
        }
    }
}

impl Slot {
    #[inline]
    pub fn begin(&mut self, lane: &[u8; 16], input: &[u8]) {
        // SAFETY: slot memory is ours
        unsafe {
            let n = input.len().min(PAYLOAD);
            ptr::copy_nonoverlapping(lane.as_ptr(), self.p.add(16), 16);
            (self.p.add(32) as *mut u32).write(0);
            (self.p.add(36) as *mut u32).write(input.len() as u32);
            ptr::copy_nonoverlapping(input.as_ptr(), self.p.add(HDR), n);
            let s = self.p as *const AtomicU64;
            (*s).fetch_add(1, Ordering::Relaxed);
            (*s.add(1)).store(1, Ordering::Relaxed);
        }
    }

    pub fn begin_desc(&mut self, lane: &[u8; 16], desc: &str) {
        // SAFETY: slot memory is ours
        unsafe {
            let n = desc.len().min(PAYLOAD);
            ptr::copy_nonoverlapping(lane.as_ptr(), self.p.add(16), 16);
            (self.p.add(32) as *mut u32).write(1);
            (self.p.add(36) as *mut u32).write(n as u32);
            ptr::copy_nonoverlapping(desc.as_ptr(), self.p.add(HDR), n);
            let s = self.p as *const AtomicU64;
            (*s).fetch_add(1, Ordering::Relaxed);
            (*s.add(1)).store(1, Ordering::Relaxed);
        }
    }

    #[inline]
    pub fn end(&mut self) {
        // SAFETY: slot memory is ours
        unsafe {
            let s = self.p as *const AtomicU64;
            (*s.add(1)).store(0, Ordering::Relaxed);
        }
    }
}
