//! S1 — symbol trees: context · Σ^≤D, explored depth-first in product with the reference machine.
//!
//! Expansion rule: a node is expanded while both implementation and model are Partial; when both
//! are terminal the node is still extended by every w' ∈ Σ^≤E (stability under appended bytes);
//! a node on which an armed oracle fails is reported and not expanded.

use crate::call::*;
use crate::model::Model;
use crate::oracle::*;
use refmodel::{Kind, St};

#[derive(Clone, Debug)]
pub enum Companions {
    None,
    /// C16: the other entry points of the same message kind
    Entries,
    /// C16: parse_headers(w) against request and response heads ending in w
    Lockstep,
    /// C15, first clause: every other option combination on default-Complete nodes
    AllConfigs,
    /// C15, second clause: the same config with every combination of the other kind's options
    OtherKind,
    /// C17: the same call with these capacities against the (unlimited) primary
    Capacities(Vec<u32>),
}

impl Companions {
    pub fn tag(&self) -> &'static str {
        match self {
            Companions::None => "none",
            Companions::Entries => "entries",
            Companions::Lockstep => "lockstep",
            Companions::AllConfigs => "allconfigs",
            Companions::OtherKind => "otherkind",
            Companions::Capacities(_) => "capacities",
        }
    }
    pub fn from_tag(t: &str) -> Companions {
        match t {
            "entries" => Companions::Entries,
            "lockstep" => Companions::Lockstep,
            "allconfigs" => Companions::AllConfigs,
            "otherkind" => Companions::OtherKind,
            "capacities" => Companions::Capacities(vec![0, 1, 2, 3, 4]),
            _ => Companions::None,
        }
    }
}

#[derive(Clone, Debug)]
pub struct TreeSpec {
    pub lane: Lane,
    pub ctx: Vec<u8>,
    pub alphabet: Vec<Vec<u8>>,
    pub depth: usize,
    pub extra: usize,
    pub companions: Companions,
}

pub const REQ_LINE: &[u8] = b"GET / HTTP/1.1\r\n";
pub const STATUS_LINE: &[u8] = b"HTTP/1.1 200 OK\r\n";

fn sym(s: &[u8]) -> Vec<u8> {
    s.to_vec()
}

/// Header-block alphabet; the run symbol `a` is concretised as a^k.
pub fn header_alphabet(k: usize) -> Vec<Vec<u8>> {
    vec![
        vec![b'a'; k],
        sym(b":"),
        sym(b" "),
        sym(b"\t"),
        sym(b"\r"),
        sym(b"\n"),
        sym(b"\0"),
        sym(b"\x01"),
        sym(b"\x7f"),
        sym(b"\x80"),
        sym(b"("),
    ]
}

/// Request-line alphabet; the target symbol `/` is concretised as /^k.
pub fn request_alphabet(k: usize) -> Vec<Vec<u8>> {
    vec![
        sym(b"G"),
        vec![b'/'; k],
        sym(b" "),
        sym(b"H"),
        sym(b"T"),
        sym(b"P"),
        sym(b"1"),
        sym(b"."),
        sym(b"0"),
        sym(b"2"),
        sym(b"\r"),
        sym(b"\n"),
        sym(b"\t"),
        sym(b"\0"),
        sym(b"\x7f"),
        sym(b"\x80"),
        sym(b"\xc3\xa9"),
        sym(b"("),
        sym(b":"),
    ]
}

/// Status-line alphabet; the reason symbol `O` is concretised as O^k.
pub fn status_alphabet(k: usize) -> Vec<Vec<u8>> {
    vec![
        sym(b"H"),
        sym(b"T"),
        sym(b"P"),
        sym(b"/"),
        sym(b"1"),
        sym(b"."),
        sym(b"0"),
        sym(b"2"),
        sym(b" "),
        sym(b"\t"),
        sym(b"\r"),
        sym(b"\n"),
        sym(b"\0"),
        sym(b"\x7f"),
        sym(b"\x80"),
        sym(b"\xc3\xa9"),
        sym(b"("),
        sym(b":"),
        vec![b'O'; k],
    ]
}

pub fn chunk_alphabet() -> Vec<Vec<u8>> {
    [&b"0"[..], b"9", b"a", b"f", b"A", b"F", b"g", b" ", b"\t", b";", b"\r", b"\n", b"\0", b"\x80"].iter().map(|s| s.to_vec()).collect()
}

pub fn request_contexts() -> Vec<Vec<u8>> {
    [
        &b""[..], b"\r", b"\n", b"G", b"GET", b"POS", b"POST", b"GET ", b"GET /", b"GET /\xc3", b"GET /\xe2\x82", b"GET /\xf0\x9f\x98", b"GET / ", b"GET /  ",
        b"GET / H", b"GET / HTTP/1.", b"GET / HTTP/1.1", b"GET / HTTP/1.1\r", b"GET / HTTP/1.1\r\n",
    ]
    .iter()
    .map(|s| s.to_vec())
    .collect()
}

pub fn status_contexts() -> Vec<Vec<u8>> {
    [
        &b""[..], b"\n", b"HTTP/1.", b"HTTP/1.1", b"HTTP/1.1 ", b"HTTP/1.1  ", b"HTTP/1.1 2", b"HTTP/1.1 20", b"HTTP/1.1 200",
        b"HTTP/1.1 200 ", b"HTTP/1.1 200  ", b"HTTP/1.1 200 O", b"HTTP/1.1 200 \x80", b"HTTP/1.1 200 OK\r", b"HTTP/1.1 200 OK\r\n",
    ]
    .iter()
    .map(|s| s.to_vec())
    .collect()
}

pub fn chunk_contexts() -> Vec<Vec<u8>> {
    let mut v = vec![Vec::new()];
    for n in 14..=17 {
        v.push(vec![b'f'; n]);
    }
    // numerically small values with many digits (the debug-profile overflow guard does not fire)
    for n in 15..=17 {
        v.push(vec![b'0'; n]);
    }
    v
}

/// Resume contexts inside a header block: nothing yet / one stored header / one ignored (or
/// rejected) line / a leading space.
pub fn header_resume_contexts() -> Vec<Vec<u8>> {
    [&b""[..], b"a:a\r\n", b"(\r\n", b" "].iter().map(|s| s.to_vec()).collect()
}

/// Alternative start lines in front of a header block: LF-only line end, no reason phrase.
pub fn start_line_variants(entry: Entry) -> Vec<&'static [u8]> {
    if entry.is_req() {
        vec![REQ_LINE, b"GET / HTTP/1.1\n", b"\r\nPOST /p HTTP/1.0\n"]
    } else if entry.is_resp() {
        vec![STATUS_LINE, b"HTTP/1.1 200 OK\n", b"HTTP/1.1 200\r\n", b"\nHTTP/1.0 204\n"]
    } else {
        vec![b""]
    }
}

pub fn start_line_for(entry: Entry) -> &'static [u8] {
    if entry.is_req() {
        REQ_LINE
    } else if entry.is_resp() {
        STATUS_LINE
    } else {
        b""
    }
}

/// Model transitions (control id of the source state, byte) reachable from the tree's root with
/// the tree's alphabet at ANY depth: the denominator for the coverage the bounded tree achieved.
pub fn reachable_pairs(spec: &TreeSpec, acc: &mut std::collections::HashSet<(usize, u8)>) {
    use std::collections::{HashSet, VecDeque};
    let mut m = Model::for_entry(spec.lane.entry, spec.lane.cfg, spec.lane.cap);
    m.feed(&spec.ctx);
    let mut seen: HashSet<String> = HashSet::new();
    let mut q = VecDeque::new();
    seen.insert(m.abstract_string());
    q.push_back(m);
    while let Some(m) = q.pop_front() {
        if m.status() != St::Partial {
            continue;
        }
        for s in &spec.alphabet {
            let mut m2 = m;
            for &b in s.iter() {
                if m2.status() == St::Partial {
                    acc.insert((m2.control_id(), b));
                }
                m2.step(b);
            }
            if seen.insert(m2.abstract_string()) {
                q.push_back(m2);
            }
        }
    }
}

struct Walker<'a> {
    ck: &'a mut Checker,
    spec: &'a TreeSpec,
    buf: Vec<u8>,
    scratch: Vec<u8>,
}

/// Runs the sub-tree of `spec` below first symbol `s1` (None: the whole tree).
pub fn run_tree(ck: &mut Checker, spec: &TreeSpec, s1: Option<usize>) {
    let mut w = Walker { ck, spec, buf: spec.ctx.clone(), scratch: Vec::new() };
    let mut m = Model::for_entry(spec.lane.entry, spec.lane.cfg, spec.lane.cap);
    m.feed(&spec.ctx);
    match s1 {
        None => w.visit(m, None, spec.depth, spec.extra),
        Some(i) => {
            // the root belongs to the task of the first symbol
            if i == 0 {
                w.visit_first_only(m, i);
            } else {
                let root = w.ck.caller.call(&spec.lane, &w.buf);
                w.descend(m, &root, spec.depth, spec.extra, Some(i));
            }
        }
    }
}

impl Walker<'_> {
    fn visit_first_only(&mut self, m: Model, i: usize) {
        let lane = self.spec.lane;
        let buf = std::mem::take(&mut self.buf);
        let (o, ok) = self.ck.eval(&lane, &buf, Some(&m), None);
        self.buf = buf;
        let ok = ok && self.companions(&o, &m);
        if ok && !self.ck.full() {
            self.descend(m, &o, self.spec.depth, self.spec.extra, Some(i));
        }
    }

    fn visit(&mut self, m: Model, parent: Option<(&Obs, usize)>, depth_left: usize, extra_left: usize) {
        let lane = self.spec.lane;
        let buf = std::mem::take(&mut self.buf);
        let (o, ok) = self.ck.eval(&lane, &buf, Some(&m), parent);
        self.buf = buf;
        let ok = ok && self.companions(&o, &m);
        if !ok || self.ck.full() {
            return;
        }
        self.descend(m, &o, depth_left, extra_left, None);
    }

    fn descend(&mut self, m: Model, o: &Obs, depth_left: usize, extra_left: usize, only: Option<usize>) {
        // the shape of the explored space is decided by the reference machine alone, so that it does
        // not depend on what the implementation under test answers: expand while the model is
        // Partial, extend terminal nodes by E more symbols
        let _ = o;
        let (nd, ne) = if m.status() == St::Partial {
            if depth_left == 0 {
                return;
            }
            (depth_left - 1, extra_left)
        } else {
            if extra_left == 0 {
                return;
            }
            (0, extra_left - 1)
        };
        let len = self.buf.len();
        let spec = self.spec;
        for (i, s) in spec.alphabet.iter().enumerate() {
            if let Some(k) = only {
                if k != i {
                    continue;
                }
            }
            self.buf.extend_from_slice(s);
            let mut m2 = m;
            for &b in s.iter() {
                if m2.status() == St::Partial {
                    self.ck.stats.mark_pair(m2.control_id(), b);
                }
                m2.step(b);
            }
            self.ck.stats.edges += 1;
            self.visit(m2, Some((o, len)), nd, ne);
            self.buf.truncate(len);
            if self.ck.full() {
                return;
            }
        }
    }

    fn companions(&mut self, o: &Obs, m: &Model) -> bool {
        self.ck.relation_tag = self.spec.companions.tag();
        let ok = self.companions_inner(o, m);
        self.ck.relation_tag = "none";
        ok
    }

    fn companions_inner(&mut self, o: &Obs, _m: &Model) -> bool {
        let lane = self.spec.lane;
        let mut ok = true;
        match &self.spec.companions {
            Companions::None => {}
            Companions::Entries => {
                let family: [Entry; 4] = if lane.entry.is_req() {
                    [Entry::ReqParse, Entry::ReqCfg, Entry::ReqUninit, Entry::ReqCfgUninit]
                } else {
                    [Entry::RespParse, Entry::RespCfg, Entry::RespUninit, Entry::RespCfgUninit]
                };
                for e in family {
                    if e == lane.entry || (!e.takes_config() && lane.cfg != 0) {
                        continue;
                    }
                    let l2 = Lane { entry: e, ..lane };
                    let o2 = self.ck.caller.call(&l2, &self.buf);
                    if o2.flags & F_PANIC != 0 {
                        self.ck.violation("the call panicked".into(), &l2, &self.buf.clone(), describe_obs(&o2), "a normal return".into(), None);
                        ok = false;
                        continue;
                    }
                    let buf = std::mem::take(&mut self.buf);
                    ok &= self.ck.agree("entry points disagree on the same buffer, configuration and capacity", &lane, o, &l2, &o2, &buf);
                    self.buf = buf;
                }
            }
            Companions::Lockstep => {
                // primary: parse_headers on w; companions: heads ending in w
                for (e, pre) in [Entry::ReqCfg, Entry::RespCfg].iter().flat_map(|&e| start_line_variants(e).into_iter().map(move |v| (e, v))) {
                    let l2 = Lane { entry: e, cfg: 0, ..lane };
                    self.scratch.clear();
                    self.scratch.extend_from_slice(pre);
                    self.scratch.extend_from_slice(&self.buf);
                    let sc = std::mem::take(&mut self.scratch);
                    let o2 = self.ck.caller.call(&l2, &sc);
                    self.ck.stats.pairs_compared += 1;
                    if let Some(w) = same_shifted(o, &o2, pre.len() as u32) {
                        let buf = self.buf.clone();
                        self.ck.violation(
                            format!("parse_headers disagrees with the header part of {}: {}", e.name(), w),
                            &lane, &buf, describe_obs(o), describe_obs(&o2), Some((l2, sc.clone(), describe_obs(&o2))),
                        );
                        ok = false;
                    }
                    self.scratch = sc;
                }
            }
            Companions::AllConfigs => {
                if let St::Complete(_) = o.st {
                    for c in 1..128u8 {
                        let l2 = Lane { cfg: c, ..lane };
                        let o2 = self.ck.caller.call(&l2, &self.buf);
                        self.ck.stats.pairs_compared += 1;
                        let mut exp = *o;
                        if lane.entry.is_resp() && c & C_MULTI_RESP != 0 && exp.reason.some && !exp.reason.outside {
                            // sole exception: leading spaces of the reason are stripped
                            let r = &self.buf[exp.reason.s as usize..exp.reason.e as usize];
                            let k = r.iter().take_while(|&&b| b == b' ').count() as u32;
                            exp.reason.s += k;
                        }
                        if !exp.same_result(&o2) {
                            let buf = self.buf.clone();
                            self.ck.violation(
                                format!("accepted by the default configuration, but the result differs under {}", config_names(c)),
                                &lane, &buf, describe_obs(o), describe_obs(&exp), Some((l2, buf.clone(), describe_obs(&o2))),
                            );
                            ok = false;
                            break;
                        }
                    }
                }
            }
            Companions::OtherKind => {
                let other = if lane.entry.is_req() { !REQ_BITS & 0x7F } else { !RESP_BITS & 0x7F };
                // every non-empty subset of the other kind's option bits
                let mut x = other;
                while x != 0 {
                    let l2 = Lane { cfg: lane.cfg | x, ..lane };
                    let o2 = self.ck.caller.call(&l2, &self.buf);
                    let buf = std::mem::take(&mut self.buf);
                    ok &= self.ck.agree(
                        &format!("options of the other message kind ({}) changed the result", config_names(x)),
                        &lane, o, &l2, &o2, &buf,
                    );
                    self.buf = buf;
                    if !ok {
                        break;
                    }
                    x = (x - 1) & other;
                }
            }
            Companions::Capacities(caps) => {
                for &cap in caps {
                    let l2 = Lane { cap, ..lane };
                    let mut m2 = Model::for_entry(l2.entry, l2.cfg, cap);
                    m2.feed(&self.buf);
                    let buf = std::mem::take(&mut self.buf);
                    let (o2, ok2) = self.ck.eval(&l2, &buf, Some(&m2), None);
                    ok &= ok2;
                    if ok2 && o2.st != St::Err(Kind::TooManyHeaders) {
                        ok &= self.ck.agree("outcome with capacity N differs from the unlimited outcome although no (N+1)-th header was completed", &lane, o, &l2, &o2, &buf);
                    }
                    self.buf = buf;
                }
            }
        }
        ok
    }
}

/// `a`: parse_headers on w; `b`: a head whose start line (length `shift`) is followed by w.
fn same_shifted(a: &Obs, b: &Obs, shift: u32) -> Option<String> {
    let st_ok = match (a.st, b.st) {
        (St::Complete(x), St::Complete(y)) => x + shift == y,
        (x, y) => x == y,
    };
    if !st_ok {
        return Some(format!("{:?} versus {:?} (offset shift {})", a.st, b.st, shift));
    }
    if a.nh != b.nh {
        return Some("header counts differ".into());
    }
    let sh = |f: &Fld| -> Fld {
        if f.some && !f.outside && f.len() > 0 {
            Fld { s: f.s + shift, e: f.e + shift, ..*f }
        } else {
            *f
        }
    };
    for i in 0..(a.nh as usize).min(refmodel::MAXH) {
        if !sh(&a.hdrs[i].0).same(&b.hdrs[i].0) || !sh(&a.hdrs[i].1).same(&b.hdrs[i].1) {
            return Some(format!("header {} differs", i));
        }
    }
    None
}
