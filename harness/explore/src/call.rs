//! One call into the subject, with every monitor armed, and the observation it leaves behind.

use crate::alloc;
use crate::arena::{Arena, Place};
use crate::journal::Slot;
use httparse::{Header, ParserConfig, Request, Response, Status};
use refmodel::{Kind, St, MAXH};
use std::mem::MaybeUninit;
use std::panic::{catch_unwind, AssertUnwindSafe};

#[derive(Clone, Copy, PartialEq, Eq, Debug, Hash)]
#[repr(u8)]
pub enum Entry {
    ReqParse = 0,
    ReqCfg = 1,
    ReqUninit = 2,
    ReqCfgUninit = 3,
    RespParse = 4,
    RespCfg = 5,
    RespUninit = 6,
    RespCfgUninit = 7,
    Headers = 8,
    Chunk = 9,
}

pub const ALL_ENTRIES: [Entry; 10] = [
    Entry::ReqParse,
    Entry::ReqCfg,
    Entry::ReqUninit,
    Entry::ReqCfgUninit,
    Entry::RespParse,
    Entry::RespCfg,
    Entry::RespUninit,
    Entry::RespCfgUninit,
    Entry::Headers,
    Entry::Chunk,
];

impl Entry {
    pub fn from_u8(v: u8) -> Entry {
        ALL_ENTRIES[v as usize]
    }
    pub fn name(&self) -> &'static str {
        match self {
            Entry::ReqParse => "Request::parse",
            Entry::ReqCfg => "ParserConfig::parse_request",
            Entry::ReqUninit => "Request::parse_with_uninit_headers",
            Entry::ReqCfgUninit => "ParserConfig::parse_request_with_uninit_headers",
            Entry::RespParse => "Response::parse",
            Entry::RespCfg => "ParserConfig::parse_response",
            Entry::RespUninit => "ParserConfig::default().parse_response_with_uninit_headers",
            Entry::RespCfgUninit => "ParserConfig::parse_response_with_uninit_headers",
            Entry::Headers => "parse_headers",
            Entry::Chunk => "parse_chunk_size",
        }
    }
    pub fn is_req(&self) -> bool {
        (*self as u8) < 4
    }
    pub fn is_resp(&self) -> bool {
        (4..8).contains(&(*self as u8))
    }
    pub fn is_uninit(&self) -> bool {
        matches!(self, Entry::ReqUninit | Entry::ReqCfgUninit | Entry::RespUninit | Entry::RespCfgUninit)
    }
    pub fn takes_config(&self) -> bool {
        matches!(self, Entry::ReqCfg | Entry::ReqCfgUninit | Entry::RespCfg | Entry::RespCfgUninit)
    }
}

// ParserConfig bits
pub const C_SPACES_AFTER_NAME: u8 = 1; // responses
pub const C_FOLDING: u8 = 2; // responses
pub const C_MULTI_REQ: u8 = 4;
pub const C_MULTI_RESP: u8 = 8;
pub const C_SPACE_BEFORE_FIRST: u8 = 16; // both
pub const C_IGNORE_RESP: u8 = 32;
pub const C_IGNORE_REQ: u8 = 64;
/// bits that may influence request parsing / response parsing
pub const REQ_BITS: u8 = C_MULTI_REQ | C_SPACE_BEFORE_FIRST | C_IGNORE_REQ;
pub const RESP_BITS: u8 = C_SPACES_AFTER_NAME | C_FOLDING | C_MULTI_RESP | C_SPACE_BEFORE_FIRST | C_IGNORE_RESP;

pub fn make_config(bits: u8) -> ParserConfig {
    // every setter is called twice, first with the opposite value: a configuration is whatever the
    // LAST call of each setter said, not an accumulation of earlier ones
    let mut c = ParserConfig::default();
    for pass in 0..2 {
        let v = |bit: u8| (bits & bit != 0) ^ (pass == 0);
        c.allow_spaces_after_header_name_in_responses(v(C_SPACES_AFTER_NAME));
        c.allow_obsolete_multiline_headers_in_responses(v(C_FOLDING));
        c.allow_multiple_spaces_in_request_line_delimiters(v(C_MULTI_REQ));
        c.allow_multiple_spaces_in_response_status_delimiters(v(C_MULTI_RESP));
        c.allow_space_before_first_header_name(v(C_SPACE_BEFORE_FIRST));
        c.ignore_invalid_headers_in_responses(v(C_IGNORE_RESP));
        c.ignore_invalid_headers_in_requests(v(C_IGNORE_REQ));
    }
    c
}

pub fn config_names(bits: u8) -> String {
    let names = [
        "spaces_after_header_name_in_responses",
        "obsolete_multiline_headers_in_responses",
        "multiple_spaces_in_request_line_delimiters",
        "multiple_spaces_in_response_status_delimiters",
        "space_before_first_header_name",
        "ignore_invalid_headers_in_responses",
        "ignore_invalid_headers_in_requests",
    ];
    let v: Vec<&str> = (0..7).filter(|i| bits & (1 << i) != 0).map(|i| names[i]).collect();
    if v.is_empty() {
        "default".to_string()
    } else {
        v.join("+")
    }
}

/// Scanner backend forced through the H2 hook (runtime-dispatch builds only).
#[derive(Clone, Copy, PartialEq, Eq, Debug, Hash)]
#[repr(u8)]
pub enum Backend {
    /// whatever the crate selects on its own
    Native = 0,
    Avx2 = 1,
    Sse42 = 2,
    Scalar = 3,
}

impl Backend {
    pub fn from_u8(v: u8) -> Backend {
        [Backend::Native, Backend::Avx2, Backend::Sse42, Backend::Scalar][v as usize]
    }
    pub fn name(&self) -> &'static str {
        match self {
            Backend::Native => "native",
            Backend::Avx2 => "avx2",
            Backend::Sse42 => "sse4.2",
            Backend::Scalar => "scalar",
        }
    }
    /// Make the crate's runtime dispatch use this backend. Process-global: callers must not mix
    /// backends across concurrently running threads.
    pub fn force(&self) -> bool {
        // the ids under which the crate caches its backends come from the crate itself (H2b hook)
        let ids = httparse::_verif::runtime_backend_ids();
        match (self, ids) {
            (Backend::Native, _) => httparse::_verif::set_runtime_feature(0) || true,
            (Backend::Avx2, Some(ids)) => std::is_x86_feature_detected!("avx2") && httparse::_verif::set_runtime_feature(ids[0]),
            (Backend::Sse42, Some(ids)) => std::is_x86_feature_detected!("sse4.2") && httparse::_verif::set_runtime_feature(ids[1]),
            (Backend::Scalar, Some(ids)) => httparse::_verif::set_runtime_feature(ids[2]),
            (_, None) => false,
        }
    }
}

#[derive(Clone, Copy, PartialEq, Eq, Debug, Hash)]
pub struct Lane {
    pub entry: Entry,
    pub cfg: u8,
    pub cap: u32,
    pub backend: Backend,
    pub place: Place,
}

impl Lane {
    pub fn new(entry: Entry, cfg: u8, cap: u32) -> Lane {
        Lane { entry, cfg, cap, backend: Backend::Native, place: Place::EndFlush }
    }
    pub fn encode(&self) -> [u8; 16] {
        let mut b = [0u8; 16];
        b[0] = self.entry as u8;
        b[1] = self.cfg;
        b[2] = self.backend as u8;
        let (pk, po) = match self.place {
            Place::EndFlush => (0u8, 0u32),
            Place::StartFlush => (1, 0),
            Place::Mid(o) => (2, o as u32),
            Place::Hostile(o) => (3, o as u32),
        };
        b[3] = pk;
        b[4..8].copy_from_slice(&self.cap.to_le_bytes());
        b[8..12].copy_from_slice(&po.to_le_bytes());
        b
    }
    pub fn decode(b: &[u8]) -> Lane {
        let cap = u32::from_le_bytes([b[4], b[5], b[6], b[7]]);
        let po = u32::from_le_bytes([b[8], b[9], b[10], b[11]]) as usize;
        Lane {
            entry: Entry::from_u8(b[0]),
            cfg: b[1],
            cap,
            backend: Backend::from_u8(b[2]),
            place: match b[3] {
                0 => Place::EndFlush,
                1 => Place::StartFlush,
                2 => Place::Mid(po),
                _ => Place::Hostile(po),
            },
        }
    }
    pub fn describe(&self) -> String {
        format!(
            "{} config={} capacity={} backend={} placement={:?}",
            self.entry.name(),
            config_names(self.cfg),
            self.cap,
            self.backend.name(),
            self.place
        )
    }
}

/// A slice handed back by the subject, as a byte range of the input.
#[derive(Clone, Copy, PartialEq, Eq, Debug, Default, Hash)]
pub struct Fld {
    pub some: bool,
    pub s: u32,
    pub e: u32,
    /// non-empty and not inside the input buffer
    pub outside: bool,
}

impl Fld {
    pub fn len(&self) -> u32 {
        self.e - self.s
    }
    pub fn same(&self, o: &Fld) -> bool {
        if self.some != o.some || self.outside != o.outside {
            return false;
        }
        if !self.some {
            return true;
        }
        // zero-length slices have no defined location
        if self.len() == 0 && o.len() == 0 {
            return true;
        }
        self.s == o.s && self.e == o.e
    }
}

// anomaly flags
pub const F_PANIC: u32 = 1 << 0;
/// a non-empty slice lies outside the input buffer
pub const F_OUTSIDE: u32 = 1 << 1;
/// a &str that is not valid UTF-8
pub const F_BAD_UTF8: u32 = 1 << 2;
/// returned headers slice is not a prefix of the caller's array
pub const F_SLICE_BAD: u32 = 1 << 3;
/// an exposed slot still holds the poison pattern (uninitialised memory exposed)
pub const F_POISON_EXPOSED: u32 = 1 << 4;
/// an exposed slot still holds the sentinel (slot counted but never written)
pub const F_STALE_EXPOSED: u32 = 1 << 5;
/// a slot beyond the returned count changed
pub const F_TOUCHED_BEYOND: u32 = 1 << 6;
/// after Partial/Err the `headers` field does not refer to the caller's whole array (init entry
/// points) / was modified (uninit entry points)
pub const F_RESTORE_BAD: u32 = 1 << 7;
/// memory just before the header array changed
pub const F_WROTE_BEFORE: u32 = 1 << 8;
/// after Partial/Err a slot holds something that is neither its previous content nor a header
/// of this buffer
pub const F_SLOT_GARBAGE: u32 = 1 << 9;
/// Complete(n) with n > len
pub const F_N_TOO_BIG: u32 = 1 << 10;

pub fn flag_names(f: u32) -> String {
    let names = [
        "panic", "slice-outside-buffer", "invalid-utf8-str", "headers-slice-not-array-prefix", "poison-slot-exposed",
        "stale-slot-exposed", "slot-beyond-count-modified", "headers-not-restored", "wrote-before-array",
        "garbage-slot", "n-exceeds-len",
    ];
    let v: Vec<&str> = (0..names.len()).filter(|i| f & (1 << i) != 0).map(|i| names[i]).collect();
    v.join(",")
}

#[derive(Clone, Copy, Debug, PartialEq, Eq)]
pub struct Obs {
    pub st: St,
    pub flags: u32,
    pub method: Fld,
    pub path: Fld,
    pub reason: Fld,
    pub version: Option<u8>,
    pub code: Option<u16>,
    pub chunk_size: u64,
    /// number of headers exposed by a Complete result
    pub nh: u32,
    pub hdrs: [(Fld, Fld); MAXH],
    /// hash over all exposed (name, value) ranges
    pub hash: u64,
    /// after Partial/Err: number of array slots holding a header of this buffer
    pub slots_written: u32,
    pub allocs: u64,
    pub counters: httparse::_verif::counters::Counters,
}

impl Obs {
    pub fn blank() -> Obs {
        Obs {
            st: St::Partial,
            flags: 0,
            method: Fld::default(),
            path: Fld::default(),
            reason: Fld::default(),
            version: None,
            code: None,
            chunk_size: 0,
            nh: 0,
            hdrs: [(Fld::default(), Fld::default()); MAXH],
            hash: 0,
            slots_written: 0,
            allocs: 0,
            counters: Default::default(),
        }
    }

    /// Equality of everything a caller can see (status, fields, headers), as used by the relational
    /// oracles.
    pub fn same_result(&self, o: &Obs) -> bool {
        self.st == o.st && self.same_fields(o) && self.same_headers(o)
    }
    pub fn same_fields(&self, o: &Obs) -> bool {
        self.method.same(&o.method)
            && self.path.same(&o.path)
            && self.reason.same(&o.reason)
            && self.version == o.version
            && self.code == o.code
            && self.chunk_size == o.chunk_size
    }
    pub fn same_headers(&self, o: &Obs) -> bool {
        if self.nh != o.nh || self.hash != o.hash {
            return false;
        }
        for i in 0..(self.nh as usize).min(MAXH) {
            if !self.hdrs[i].0.same(&o.hdrs[i].0) || !self.hdrs[i].1.same(&o.hdrs[i].1) {
                return false;
            }
        }
        true
    }
}

pub fn kind_of(e: httparse::Error) -> Kind {
    match e {
        httparse::Error::HeaderName => Kind::HeaderName,
        httparse::Error::HeaderValue => Kind::HeaderValue,
        httparse::Error::NewLine => Kind::NewLine,
        httparse::Error::Status => Kind::Status,
        httparse::Error::Token => Kind::Token,
        httparse::Error::TooManyHeaders => Kind::TooManyHeaders,
        httparse::Error::Version => Kind::Version,
    }
}

const POISON: [usize; 4] = [0x0BAD_F00D_DEAD_0001, 0x0BAD_F00D_DEAD_0002, 0x0BAD_F00D_DEAD_0003, 0x0BAD_F00D_DEAD_0004];
static SENT_NAME: &str = "sentinel-name";
static SENT_VALUE: &[u8] = b"sentinel-value";
const CANARY: u8 = 0xC7;

const _: () = assert!(std::mem::size_of::<Header<'static>>() == 32);

fn sentinel_words() -> [usize; 4] {
    let h = Header { name: SENT_NAME, value: SENT_VALUE };
    // SAFETY: Header is 4 plain words
    unsafe { std::mem::transmute::<Header<'static>, [usize; 4]>(h) }
}

/// Per-thread state: arenas, journal slot, lazily built configs.
pub struct Caller {
    pub inputs: Arena,
    pub headers: Arena,
    pub slot: Slot,
    configs: Vec<ParserConfig>,
    sentinel: [usize; 4],
    pub calls: u64,
    /// the last RECENT calls of this caller (lane, input), oldest first once rotated: if the
    /// subject keeps state between calls, a violation may need them to reproduce
    recent: Vec<(Lane, Vec<u8>)>,
    recent_next: usize,
}

pub const RECENT: usize = 6;
pub const RECENT_MAX_INPUT: usize = 2048;

fn fld(buf: &[u8], p: *const u8, len: usize, flags: &mut u32) -> Fld {
    if len == 0 {
        return Fld { some: true, s: 0, e: 0, outside: false };
    }
    let b0 = buf.as_ptr() as usize;
    let b1 = b0 + buf.len();
    let p0 = p as usize;
    if p0 >= b0 && p0.checked_add(len).map_or(false, |e| e <= b1) {
        Fld { some: true, s: (p0 - b0) as u32, e: (p0 - b0 + len) as u32, outside: false }
    } else {
        *flags |= F_OUTSIDE;
        Fld { some: true, s: 0, e: len.min(u32::MAX as usize) as u32, outside: true }
    }
}

fn fld_str(buf: &[u8], s: Option<&str>, flags: &mut u32) -> Fld {
    match s {
        None => Fld::default(),
        Some(s) => {
            if std::str::from_utf8(s.as_bytes()).is_err() {
                *flags |= F_BAD_UTF8;
            }
            fld(buf, s.as_ptr(), s.len(), flags)
        }
    }
}

impl Caller {
    pub fn new(slot: Slot, max_input: usize, max_headers: usize) -> Caller {
        Caller {
            inputs: Arena::new(max_input.max(4096) + 4096),
            headers: Arena::new(max_headers.max(64) * 32 + 4096),
            slot,
            configs: (0..128u32).map(|b| make_config(b as u8)).collect(),
            sentinel: sentinel_words(),
            calls: 0,
            recent: (0..RECENT).map(|_| (Lane::new(Entry::Chunk, 0, 0), Vec::with_capacity(RECENT_MAX_INPUT))).collect(),
            recent_next: 0,
        }
    }

    /// Runs `lane.entry` on `input`, journalled, with guard pages, panic capture, allocation and
    /// cursor counters.
    pub fn call(&mut self, lane: &Lane, input: &[u8]) -> Obs {
        self.slot.begin(&lane.encode(), input);
        let o = self.call_unjournalled(lane, input);
        self.slot.end();
        o
    }

    /// The recorded recent calls in the order they were made (an input longer than
    /// RECENT_MAX_INPUT is recorded as empty and skipped here).
    pub fn recent_calls(&self) -> Vec<(Lane, Vec<u8>)> {
        let n = (self.calls as usize).min(RECENT);
        (0..n).map(|i| (self.recent_next + RECENT - n + i) % RECENT).map(|k| self.recent[k].clone()).filter(|(_, i)| !i.is_empty()).collect()
    }

    pub fn call_unjournalled(&mut self, lane: &Lane, input: &[u8]) -> Obs {
        self.calls += 1;
        {
            let slot = &mut self.recent[self.recent_next];
            slot.0 = *lane;
            slot.1.clear();
            if input.len() <= RECENT_MAX_INPUT {
                slot.1.extend_from_slice(input);
            }
            self.recent_next = (self.recent_next + 1) % RECENT;
        }
        let buf: &'static [u8] = self.inputs.place(input, lane.place);
        let cap = lane.cap as usize;
        let arr = self.headers.slot(cap * 32, Place::EndFlush) as *mut [usize; 4];
        let uninit = lane.entry.is_uninit();
        let fill = if uninit { POISON } else { self.sentinel };
        // SAFETY: arr..arr+cap lies in the header arena; 32 canary bytes before it as well
        unsafe {
            for i in 0..cap {
                arr.add(i).write(fill);
            }
            std::ptr::write_bytes((arr as *mut u8).sub(32), CANARY, 32);
        }
        let cfg = &self.configs[lane.cfg as usize];
        let mut o = Obs::blank();
        // the uninit entry points must leave `headers` untouched unless they return Complete: the
        // value starts out with a recognisable two-slot slice of its own
        let pre_h = Header { name: SENT_NAME, value: SENT_VALUE };
        let mut empty: [Header<'static>; 2] = [pre_h, pre_h];
        let empty_ptr = empty.as_ptr();
        let _ = httparse::_verif::counters::take();
        let a0 = alloc::count();
        // SAFETY (all the from_raw_parts_mut below): arr points to cap properly aligned slots that
        // were just filled with valid Header bit patterns (sentinel) or are treated as MaybeUninit.
        match lane.entry {
            Entry::ReqParse | Entry::ReqCfg | Entry::ReqUninit | Entry::ReqCfgUninit => {
                let mut r = if uninit {
                    Request::new(&mut empty[..])
                } else {
                    Request::new(unsafe { std::slice::from_raw_parts_mut(arr as *mut Header<'static>, cap) })
                };
                let res = catch_unwind(AssertUnwindSafe(|| match lane.entry {
                    Entry::ReqParse => r.parse(buf),
                    Entry::ReqCfg => cfg.parse_request(&mut r, buf),
                    Entry::ReqUninit => r.parse_with_uninit_headers(buf, unsafe {
                        std::slice::from_raw_parts_mut(arr as *mut MaybeUninit<Header<'static>>, cap)
                    }),
                    _ => cfg.parse_request_with_uninit_headers(&mut r, buf, unsafe {
                        std::slice::from_raw_parts_mut(arr as *mut MaybeUninit<Header<'static>>, cap)
                    }),
                }));
                o.allocs = alloc::count() - a0;
                o.counters = httparse::_verif::counters::take();
                match res {
                    Err(_) => {
                        o.flags |= F_PANIC;
                        return o;
                    }
                    Ok(Ok(Status::Complete(n))) => o.st = St::Complete(n as u32),
                    Ok(Ok(Status::Partial)) => o.st = St::Partial,
                    Ok(Err(e)) => o.st = St::Err(kind_of(e)),
                }
                if let St::Complete(n) = o.st {
                    if n as usize > buf.len() {
                        o.flags |= F_N_TOO_BIG;
                    }
                }
                o.method = fld_str(buf, r.method, &mut o.flags);
                o.path = fld_str(buf, r.path, &mut o.flags);
                o.version = r.version;
                let (hp, hl) = (r.headers.as_ptr(), r.headers.len());
                self.inspect(&mut o, buf, uninit, hp, hl, arr, cap, empty_ptr);
            }
            Entry::RespParse | Entry::RespCfg | Entry::RespUninit | Entry::RespCfgUninit => {
                let mut r = if uninit {
                    Response::new(&mut empty[..])
                } else {
                    Response::new(unsafe { std::slice::from_raw_parts_mut(arr as *mut Header<'static>, cap) })
                };
                let res = catch_unwind(AssertUnwindSafe(|| match lane.entry {
                    Entry::RespParse => r.parse(buf),
                    Entry::RespCfg => cfg.parse_response(&mut r, buf),
                    // Response has no public parse_with_uninit_headers: the default-config call
                    Entry::RespUninit => self.configs[0].parse_response_with_uninit_headers(&mut r, buf, unsafe {
                        std::slice::from_raw_parts_mut(arr as *mut MaybeUninit<Header<'static>>, cap)
                    }),
                    _ => cfg.parse_response_with_uninit_headers(&mut r, buf, unsafe {
                        std::slice::from_raw_parts_mut(arr as *mut MaybeUninit<Header<'static>>, cap)
                    }),
                }));
                o.allocs = alloc::count() - a0;
                o.counters = httparse::_verif::counters::take();
                match res {
                    Err(_) => {
                        o.flags |= F_PANIC;
                        return o;
                    }
                    Ok(Ok(Status::Complete(n))) => o.st = St::Complete(n as u32),
                    Ok(Ok(Status::Partial)) => o.st = St::Partial,
                    Ok(Err(e)) => o.st = St::Err(kind_of(e)),
                }
                if let St::Complete(n) = o.st {
                    if n as usize > buf.len() {
                        o.flags |= F_N_TOO_BIG;
                    }
                }
                o.version = r.version;
                o.code = r.code;
                o.reason = fld_str(buf, r.reason, &mut o.flags);
                let (hp, hl) = (r.headers.as_ptr(), r.headers.len());
                self.inspect(&mut o, buf, uninit, hp, hl, arr, cap, empty_ptr);
            }
            Entry::Headers => {
                let res = catch_unwind(AssertUnwindSafe(move || {
                    let hs: &'static mut [Header<'static>] = unsafe { std::slice::from_raw_parts_mut(arr as *mut Header<'static>, cap) };
                    httparse::parse_headers(buf, hs)
                }));
                o.allocs = alloc::count() - a0;
                o.counters = httparse::_verif::counters::take();
                let (hp, hl);
                match res {
                    Err(_) => {
                        o.flags |= F_PANIC;
                        return o;
                    }
                    Ok(Ok(Status::Complete((n, hdrs)))) => {
                        o.st = St::Complete(n as u32);
                        if n > buf.len() {
                            o.flags |= F_N_TOO_BIG;
                        }
                        hp = hdrs.as_ptr();
                        hl = hdrs.len();
                    }
                    Ok(Ok(Status::Partial)) => {
                        o.st = St::Partial;
                        hp = arr as *const Header<'static>;
                        hl = cap;
                    }
                    Ok(Err(e)) => {
                        o.st = St::Err(kind_of(e));
                        hp = arr as *const Header<'static>;
                        hl = cap;
                    }
                }
                self.inspect(&mut o, buf, false, hp, hl, arr, cap, empty_ptr);
            }
            Entry::Chunk => {
                let res = catch_unwind(AssertUnwindSafe(|| httparse::parse_chunk_size(buf)));
                o.allocs = alloc::count() - a0;
                o.counters = httparse::_verif::counters::take();
                match res {
                    Err(_) => {
                        o.flags |= F_PANIC;
                        return o;
                    }
                    Ok(Ok(Status::Complete((n, size)))) => {
                        o.st = St::Complete(n as u32);
                        if n > buf.len() {
                            o.flags |= F_N_TOO_BIG;
                        }
                        o.chunk_size = size;
                    }
                    Ok(Ok(Status::Partial)) => o.st = St::Partial,
                    Ok(Err(_)) => o.st = St::Err(Kind::ChunkSize),
                }
            }
        }
        o
    }

    /// Looks at the `headers` field and at every slot of the caller's array, raw words first.
    #[allow(clippy::too_many_arguments)]
    fn inspect(
        &self,
        o: &mut Obs,
        buf: &[u8],
        uninit: bool,
        hp: *const Header<'static>,
        hl: usize,
        arr: *mut [usize; 4],
        cap: usize,
        empty_ptr: *const Header<'static>,
    ) {
        let fill = if uninit { POISON } else { self.sentinel };
        // SAFETY: reading raw words of slots inside the header arena
        unsafe {
            let before = std::slice::from_raw_parts((arr as *const u8).sub(32), 32);
            if before.iter().any(|&b| b != CANARY) {
                o.flags |= F_WROTE_BEFORE;
            }
        }
        let complete = matches!(o.st, St::Complete(_));
        if complete {
            if hl > cap || (hl > 0 && hp as usize != arr as usize) {
                o.flags |= F_SLICE_BAD;
                o.nh = hl.min(u32::MAX as usize) as u32;
                return;
            }
            o.nh = hl as u32;
            let mut hash = 0xcbf29ce484222325u64;
            for i in 0..cap {
                // SAFETY: slot i < cap
                let words = unsafe { arr.add(i).read() };
                if i < hl {
                    if words == POISON {
                        o.flags |= F_POISON_EXPOSED;
                        continue;
                    }
                    if words == self.sentinel {
                        o.flags |= F_STALE_EXPOSED;
                        continue;
                    }
                    // SAFETY: not poison: the subject wrote a Header here
                    let h: Header<'static> = unsafe { (arr.add(i) as *const Header<'static>).read() };
                    let name = fld_str(buf, Some(h.name), &mut o.flags);
                    let value = fld(buf, h.value.as_ptr(), h.value.len(), &mut o.flags);
                    if i < MAXH {
                        o.hdrs[i] = (name, value);
                    }
                    hash = refmodel::hash_header(hash, (name.s, name.e), (value.s, value.e));
                } else if words != fill {
                    o.flags |= F_TOUCHED_BEYOND;
                }
            }
            o.hash = hash;
        } else {
            if uninit {
                if hl != 2 || hp != empty_ptr {
                    o.flags |= F_RESTORE_BAD;
                }
            } else if hl != cap || (cap > 0 && hp as usize != arr as usize) {
                o.flags |= F_RESTORE_BAD;
            }
            for i in 0..cap {
                // SAFETY: slot i < cap
                let words = unsafe { arr.add(i).read() };
                if words == fill {
                    continue;
                }
                if words == POISON {
                    continue;
                }
                // must be a header of this buffer
                // SAFETY: not poison and not the fill: the subject wrote a Header here
                let h: Header<'static> = unsafe { (arr.add(i) as *const Header<'static>).read() };
                let mut f = 0u32;
                let name = fld_str(buf, Some(h.name), &mut f);
                let _ = fld(buf, h.value.as_ptr(), h.value.len(), &mut f);
                if f != 0 || name.len() == 0 {
                    o.flags |= F_SLOT_GARBAGE;
                } else {
                    o.slots_written += 1;
                }
            }
        }
    }
}
