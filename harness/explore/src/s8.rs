use crate::plan::Plan;
pub fn add_families(_p: &mut Plan, _q: bool) {}
pub fn add_scaling(_p: &mut Plan, _q: bool) {}
pub fn replay(_t: &str) -> i32 { 0 }
