//! S8 — size families: adversarial generators × sizes up to 1 MiB (C01, C04, C19, C20), and the
//! doubling test that separates linear from super-linear work (C20).

use crate::call::*;
use crate::json;
use crate::model::Model;
use crate::oracle::*;
use crate::plan::Plan;
use crate::runner::{Phase, TaskFn};

pub struct Family {
    pub name: &'static str,
    pub entry: Entry,
    pub cfg: u8,
    pub gen: fn(usize) -> Vec<u8>,
}

fn rep(pre: &[u8], unit: &[u8], n: usize, post: &[u8]) -> Vec<u8> {
    let k = n / unit.len().max(1);
    let mut v = Vec::with_capacity(pre.len() + k * unit.len() + post.len());
    v.extend_from_slice(pre);
    for _ in 0..k {
        v.extend_from_slice(unit);
    }
    v.extend_from_slice(post);
    v
}

const RQ: &[u8] = b"GET / HTTP/1.1\r\n";
const RS: &[u8] = b"HTTP/1.1 200 OK\r\n";

pub fn families() -> Vec<Family> {
    use Entry::*;
    let base = vec![
        Family { name: "huge-method", entry: ReqCfg, cfg: 0, gen: |n| rep(b"", b"M", n, b" / HTTP/1.1\r\n\r\n") },
        Family { name: "huge-target", entry: ReqCfg, cfg: 0, gen: |n| rep(b"GET /", b"a", n, b" HTTP/1.1\r\n\r\n") },
        Family { name: "huge-utf8-target", entry: ReqCfg, cfg: 0, gen: |n| rep(b"GET /", "é€".as_bytes(), n, b" HTTP/1.1\r\n\r\n") },
        Family { name: "huge-header-name", entry: ReqCfg, cfg: 0, gen: |n| rep(RQ, b"n", n, b": v\r\n\r\n") },
        Family { name: "huge-header-value", entry: RespCfg, cfg: 0, gen: |n| rep(b"HTTP/1.1 200 OK\r\nV: ", b"v", n, b"\r\n\r\n") },
        Family { name: "huge-obs-text-value", entry: RespCfg, cfg: 0, gen: |n| rep(b"HTTP/1.1 200 OK\r\nV: ", b"\xff\x80", n, b"\r\n\r\n") },
        Family { name: "huge-reason", entry: RespCfg, cfg: 0, gen: |n| rep(b"HTTP/1.1 200 ", b"r ", n, b"\r\n\r\n") },
        Family { name: "huge-chunk-extension", entry: Chunk, cfg: 0, gen: |n| rep(b"1f;", b"e\n", n, b"\r\n") },
        Family { name: "chunk-whitespace-run", entry: Chunk, cfg: 0, gen: |n| rep(b"1f", b" \t", n, b";x\r\n") },
        Family { name: "tiny-headers", entry: ReqCfg, cfg: 0, gen: |n| rep(RQ, b"a:b\r\n", n, b"\r\n") },
        Family { name: "tiny-headers-parse_headers", entry: Headers, cfg: 0, gen: |n| rep(b"", b"a:b\n", n, b"\n") },
        Family { name: "minimal-headers-parse_headers", entry: Headers, cfg: 0, gen: |n| rep(b"", b"a:\n", n, b"\n") },
        Family { name: "minimal-headers-request", entry: ReqCfg, cfg: 0, gen: |n| rep(b"GET / HTTP/1.1\n", b"a:\n", n, b"\n") },
        Family { name: "minimal-headers-response", entry: RespCfg, cfg: 0, gen: |n| rep(b"HTTP/1.1 200\n", b"b:\n", n, b"\n") },
        Family { name: "huge-obs-text-reason", entry: RespCfg, cfg: 0, gen: |n| rep(b"HTTP/1.1 200 ", b"\xe9", n, b"\r\n\r\n") },
        Family { name: "mix-long-first-line-then-folds", entry: RespCfg, cfg: C_FOLDING, gen: |n| { let mut v = rep(b"HTTP/1.1 200 OK\r\nH: ", b"x", n / 2, b""); v.extend(rep(b"", b"\r\n y", n / 2, b"\r\n\r\n")); v } },
        Family { name: "mix-long-first-header-then-many", entry: ReqCfg, cfg: 0, gen: |n| { let mut v = rep(b"GET / HTTP/1.1\r\nBig: ", b"v", n / 2, b"\r\n"); v.extend(rep(b"", b"a:b\r\n", n / 2, b"\r\n")); v } },
        Family { name: "mix-ignored-and-valid-lines", entry: RespCfg, cfg: C_IGNORE_RESP, gen: |n| rep(b"HTTP/1.1 200 OK\r\n", b"bad line\r\nk: v\r\n", n, b"\r\n") },
        Family { name: "mix-whitespace-after-many-colons", entry: ReqCfg, cfg: 0, gen: |n| rep(b"GET / HTTP/1.1\r\n", b"k:        \t        v   \r\n", n, b"\r\n") },
        Family { name: "mix-long-target-then-many-headers", entry: ReqCfg, cfg: 0, gen: |n| { let mut v = rep(b"GET /", "é".as_bytes(), n / 2, b" HTTP/1.1\r\n"); v.extend(rep(b"", b"a:b\r\n", n / 2, b"\r\n")); v } },
        Family { name: "empty-value-headers", entry: RespCfg, cfg: 0, gen: |n| rep(RS, b"a:\r\n", n, b"\r\n") },
        Family { name: "folded-lines", entry: RespCfg, cfg: C_FOLDING, gen: |n| rep(b"HTTP/1.1 200 OK\r\nH: x\r\n", b" y\r\n", n, b"\r\n") },
        Family { name: "folded-empty-lines", entry: RespCfg, cfg: C_FOLDING, gen: |n| rep(b"HTTP/1.1 200 OK\r\nH:\r\n", b" \r\n", n, b"\r\n") },
        Family { name: "folded-blank-lines", entry: RespCfg, cfg: C_FOLDING, gen: |n| rep(b"HTTP/1.1 200 OK\r\nX: a\r\n", b" \r\n", n, b"\r\n") },
        Family { name: "folded-blank-lines-lf", entry: RespCfg, cfg: C_FOLDING | C_IGNORE_RESP, gen: |n| rep(b"HTTP/1.1 200 OK\nX: a\n", b"\t\n", n, b"\n") },
        Family { name: "folded-headers", entry: RespCfg, cfg: C_FOLDING, gen: |n| rep(RS, b"h: a\r\n b\r\n", n, b"\r\n") },
        Family { name: "folded-whitespace-tail", entry: RespCfg, cfg: C_FOLDING, gen: |n| rep(b"HTTP/1.1 200 OK\r\nH: x", b" \t", n, b"\r\n \r\n\r\n") },
        Family { name: "ignored-lines", entry: RespCfg, cfg: C_IGNORE_RESP, gen: |n| rep(RS, b"bad line\r\n", n, b"\r\n") },
        Family { name: "ignored-lines-request", entry: ReqCfg, cfg: C_IGNORE_REQ, gen: |n| rep(RQ, b": x\n", n, b"\r\n") },
        Family { name: "ignored-long-line", entry: RespCfg, cfg: C_IGNORE_RESP, gen: |n| rep(b"HTTP/1.1 200 OK\r\n(", b"x", n, b"\r\nA: b\r\n\r\n") },
        Family { name: "ignored-folded-mix", entry: RespCfg, cfg: C_IGNORE_RESP | C_FOLDING, gen: |n| rep(RS, b"a: b\r\n c\x01\r\n d\r\n", n, b"\r\n") },
        Family { name: "space-before-first-header", entry: RespCfg, cfg: C_SPACE_BEFORE_FIRST, gen: |n| rep(RS, b" \t", n, b"A: b\r\n\r\n") },
        Family { name: "space-lines-before-first-header", entry: ReqCfg, cfg: C_SPACE_BEFORE_FIRST | C_IGNORE_REQ, gen: |n| rep(RQ, b" (\r\n", n, b"A: b\r\n\r\n") },
        Family { name: "whitespace-after-colon", entry: ReqCfg, cfg: 0, gen: |n| rep(b"GET / HTTP/1.1\r\nA:", b" \t", n, b"b\r\n\r\n") },
        Family { name: "whitespace-after-name", entry: RespCfg, cfg: C_SPACES_AFTER_NAME, gen: |n| rep(b"HTTP/1.1 200 OK\r\nA", b" \t", n, b": b\r\n\r\n") },
        Family { name: "trailing-whitespace-value", entry: ReqCfg, cfg: 0, gen: |n| rep(b"GET / HTTP/1.1\r\nA: b", b" \t", n, b"\r\n\r\n") },
        Family { name: "whitespace-only-value", entry: ReqCfg, cfg: 0, gen: |n| rep(b"GET / HTTP/1.1\r\nA:", b"\t ", n, b"\r\n\r\n") },
        Family { name: "many-trailing-whitespace-values", entry: ReqCfg, cfg: 0, gen: |n| rep(RQ, b"A: b      \t      \r\n", n, b"\r\n") },
        Family { name: "near-miss-htab-every-8", entry: RespCfg, cfg: 0, gen: |n| rep(b"HTTP/1.1 200 OK\r\nV: x", b"vvvvvvv\t", n, b"\r\n\r\n") },
        Family { name: "near-miss-htab-every-16", entry: RespCfg, cfg: 0, gen: |n| rep(b"HTTP/1.1 200 OK\r\nV: x", b"vvvvvvvvvvvvvvv\t", n, b"\r\n\r\n") },
        Family { name: "near-miss-htab-every-32", entry: RespCfg, cfg: 0, gen: |n| rep(b"HTTP/1.1 200 OK\r\nV: x", b"vvvvvvvvvvvvvvvvvvvvvvvvvvvvvvv\t", n, b"\r\n\r\n") },
        Family { name: "near-miss-short-values", entry: RespCfg, cfg: 0, gen: |n| rep(RS, b"k: vvvvvvvvvvvvvvvvvvvvvvvvvvvvvv\r\n", n, b"\r\n") },
        Family { name: "near-miss-short-targets-names", entry: ReqCfg, cfg: 0, gen: |n| rep(RQ, b"nnnnnnnnnnnnnnnnnnnnnnnnnnnnnnn:v\n", n, b"\n") },
        Family { name: "leading-empty-lines", entry: ReqCfg, cfg: 0, gen: |n| rep(b"", b"\r\n\n", n, b"GET / HTTP/1.1\r\n\r\n") },
        Family { name: "leading-empty-lines-response", entry: RespCfg, cfg: 0, gen: |n| rep(b"", b"\n", n, b"HTTP/1.1 200 OK\r\n\r\n") },
        Family { name: "multi-space-request-line", entry: ReqCfg, cfg: C_MULTI_REQ, gen: |n| {
            let mut v = rep(b"GET", b" ", n / 2, b"/");
            v.extend(rep(b"", b" ", n / 2, b"HTTP/1.1\r\n\r\n"));
            v
        } },
        Family { name: "multi-space-status-line", entry: RespCfg, cfg: C_MULTI_RESP, gen: |n| {
            let mut v = rep(b"HTTP/1.1", b" ", n / 2, b"200");
            v.extend(rep(b"", b" ", n / 2, b"OK\r\n\r\n"));
            v
        } },
        Family { name: "colonless-lines", entry: RespCfg, cfg: C_SPACES_AFTER_NAME | C_IGNORE_RESP, gen: |n| rep(RS, b"name junk\r\n", n, b"\r\n") },
        Family { name: "colonless-lines-then-header", entry: RespCfg, cfg: C_SPACES_AFTER_NAME | C_IGNORE_RESP, gen: |n| rep(RS, b"name  junk\r\n", n, b"A : b\r\n\r\n") },
        Family { name: "colonless-lines-request", entry: ReqCfg, cfg: C_IGNORE_REQ | C_SPACE_BEFORE_FIRST, gen: |n| rep(RQ, b"name junk\n", n, b"\n") },
        Family { name: "ignored-lf-lines-after-crlf-header", entry: RespCfg, cfg: C_IGNORE_RESP, gen: |n| rep(b"HTTP/1.1 200 OK\r\nA: b\r\n", b"bad line\n", n, b"\n") },
        Family { name: "ignored-crlf-lines-after-lf-header", entry: ReqCfg, cfg: C_IGNORE_REQ, gen: |n| rep(b"GET / HTTP/1.1\nA: b\n", b"bad line\r\n", n, b"\r\n") },
        Family { name: "ignored-long-line-unterminated", entry: RespCfg, cfg: C_IGNORE_RESP, gen: |n| rep(b"HTTP/1.1 200 OK\r\nA: b\r\n(", b"x", n, b"") },
        Family { name: "long-value-unterminated", entry: ReqCfg, cfg: 0, gen: |n| rep(b"GET / HTTP/1.1\r\nA: ", b"v ", n, b"") },
        Family { name: "folded-value-unterminated", entry: RespCfg, cfg: C_FOLDING, gen: |n| rep(b"HTTP/1.1 200 OK\r\nA: b\r\n ", b"v\t", n, b"") },
    ];
    with_option_twins(base)
}

/// Every header-line family once more with all leniency options of its message kind switched on:
/// work that is only super-linear under a combination of options (a look-ahead of one option
/// meeting the line skipper of another) has to show up too.
fn with_option_twins(mut v: Vec<Family>) -> Vec<Family> {
    let n = v.len();
    for i in 0..n {
        let f = &v[i];
        let all = if f.entry.is_req() { REQ_BITS } else if f.entry.is_resp() { RESP_BITS } else { continue };
        let header_lines = !(f.name.starts_with("huge-") || f.name.starts_with("near-miss") || f.name.starts_with("leading-") || f.name.starts_with("multi-space"));
        if !header_lines || f.cfg == all {
            continue;
        }
        let name: &'static str = Box::leak(format!("{}+all-options", f.name).into_boxed_str());
        let twin = Family { name, entry: f.entry, cfg: all, gen: f.gen };
        v.push(twin);
    }
    v
}

/// Variants of one generated input: complete, truncated (last 1 and 3 bytes missing), and ending
/// in an error (last line end replaced by a control byte).
pub fn variants(full: &[u8]) -> Vec<(&'static str, Vec<u8>)> {
    let mut v = vec![("complete", full.to_vec())];
    if full.len() > 3 {
        v.push(("truncated-1", full[..full.len() - 1].to_vec()));
        v.push(("truncated-3", full[..full.len() - 3].to_vec()));
        let mut e = full.to_vec();
        let l = e.len();
        e[l - 3] = 0x01;
        v.push(("error-at-end", e));
        let mut e = full.to_vec();
        e.extend_from_slice(b"trailing body bytes \x00\r\n\r\n");
        v.push(("with-body", e));
        // a NUL close to the end, a lone CR in the middle (what a line skipper must still see)
        let mut e = full.to_vec();
        let l = e.len();
        e[l - 3] = 0x00;
        v.push(("nul-at-end", e));
        let mut e = full.to_vec();
        e[l / 2] = b'\r';
        v.push(("cr-in-middle", e));
        // the other spellings of the two final line ends (a pre-scan for the end of the head has
        // to know all four)
        if full.ends_with(b"\r\n\r\n") {
            let stem = &full[..full.len() - 4];
            for (name, end) in [("end-lf-crlf", &b"\n\r\n"[..]), ("end-crlf-lf", b"\r\n\n"), ("end-lf-lf", b"\n\n")] {
                let mut e = stem.to_vec();
                e.extend_from_slice(end);
                e.extend_from_slice(b"body without another empty line");
                v.push((name, e));
            }
        } else if full.ends_with(b"\n\n") {
            let stem = &full[..full.len() - 2];
            for (name, end) in [("end-lf-crlf", &b"\n\r\n"[..]), ("end-crlf-lf", b"\r\n\n"), ("end-crlf-crlf", b"\r\n\r\n")] {
                let mut e = stem.to_vec();
                e.extend_from_slice(end);
                e.extend_from_slice(b"body without another empty line");
                v.push((name, e));
            }
        }
    }
    v
}

fn descriptor(fam: usize, size: usize, variant: &str, cap: u32) -> String {
    format!("family={} size={} variant={} cap={}", fam, size, variant, cap)
}

fn run_one(ck: &mut Checker, fam: usize, f: &Family, size: usize) {
    let full = (f.gen)(size);
    let nh_max = (size / 3 + 8) as u32;
    for (vname, input) in variants(&full) {
        for cap in [0u32, 1, nh_max] {
            if f.entry == Entry::Chunk && cap != 0 {
                continue;
            }
            let lane = Lane::new(f.entry, f.cfg, cap);
            let mut m = Model::for_entry(lane.entry, lane.cfg, lane.cap);
            m.feed(&input);
            let d = descriptor(fam, size, vname, cap);
            ck.caller.slot.begin_desc(&lane.encode(), &d);
            let o = ck.caller.call_unjournalled(&lane, &input);
            ck.caller.slot.end();
            ck.stats.nodes += 1;
            ck.stats.max_len = ck.stats.max_len.max(input.len() as u64);
            ck.stats.record(&o);
            let before = ck.nviol;
            ck.relation_tag = "family";
            // the model comparison is always armed here: a size family whose outcome is not the
            // expected one would make the run vacuous
            let ok = ck.judge(&lane, &input, &o, Some(&m), None);
            ck.relation_tag = "none";
            if !ok && ck.nviol > before {
                // replace the (huge) input of the recorded violation by its descriptor
                if let Some(v) = ck.violations.last_mut() {
                    if v.input.len() > 4096 {
                        v.input = d.clone().into_bytes();
                    } else {
                        v.relation = "none".into();
                    }
                }
            }
            if std::mem::discriminant(&o.st) != std::mem::discriminant(&m.status()) && ck.armed & O_LANG == 0 {
                ck.violation(
                    format!("size family {} ({}): outcome {:?} differs from the reference model's {:?}", f.name, d, o.st, m.status()),
                    &lane, d.as_bytes(), describe_obs(&o), describe_model(&m.out()), None,
                );
                if let Some(v) = ck.violations.last_mut() {
                    v.relation = "family".into();
                }
            }
            if ck.full() {
                return;
            }
        }
    }
}

pub fn add_families(p: &mut Plan, q: bool) {
    // (256 KiB of 3-byte header lines is 87 k lines: past every 8- and 16-bit counter)
    let sizes: Vec<usize> = if q { vec![4 << 10, 64 << 10, 256 << 10] } else { vec![4 << 10, 64 << 10, 256 << 10, 1 << 20] };
    let n = families().len();
    let mut tasks: Vec<TaskFn> = Vec::new();
    for &size in &sizes {
        for fam in 0..n {
            tasks.push(Box::new(move |ck: &mut Checker| {
                let fs = families();
                run_one(ck, fam, &fs[fam], size);
            }));
        }
    }
    // beyond 1 MiB (2 MiB + 4 KiB): the families that are one long field or one long unfinished line
    for fam in 0..n {
        let name = families()[fam].name;
        if name.starts_with("huge-") || name.ends_with("-unterminated") || name == "ignored-long-line" {
            tasks.push(Box::new(move |ck: &mut Checker| {
                let fs = families();
                run_one(ck, fam, &fs[fam], (2 << 20) + 4096);
            }));
        }
    }
    p.phases.push(Phase { label: format!("S8: {} adversarial size families × sizes {:?} (single-field and unterminated ones also at 2 MiB + 4 KiB) × up to 10 variants × capacities 0/1/enough", n, sizes), backend: Backend::Native, tasks });
    p.bounds.push(format!("S8: {} generators × sizes {:?} bytes × variants complete/truncated-1/truncated-3/error-at-end/with-body/nul-at-end/cr-in-middle and the three other spellings of the two final line ends; single-field and unterminated families also at 2 MiB + 4 KiB × capacities 0, 1, enough", n, sizes));
}

fn ops(c: &httparse::_verif::counters::Counters) -> u64 {
    c.next + c.peek + c.peek_ahead + c.peek_n + c.as_ref + c.slice + c.advance + c.set_cursor
}

/// C20: cursor operations at sizes N, 2N, 4N; the second increment may not be much more than
/// twice the first (a quadratic rescan makes it four times the first).
pub fn add_scaling(p: &mut Plan, q: bool) {
    let base = if q { 16usize << 10 } else { 128 << 10 };
    let n = families().len();
    let mut tasks: Vec<TaskFn> = Vec::new();
    for fam in 0..n {
        tasks.push(Box::new(move |ck: &mut Checker| {
            let fs = families();
            let f = &fs[fam];
            for vi in 0..3usize {
                let mut counts = Vec::new();
                let mut vname = "";
                for mult in [1usize, 2, 4] {
                    let full = (f.gen)(base * mult);
                    let (vn, input) = variants(&full).swap_remove(vi);
                    vname = vn;
                    let cap = (base * mult / 3 + 8) as u32;
                    let lane = Lane::new(f.entry, f.cfg, cap);
                    let d = descriptor(fam, base * mult, vn, cap);
                    ck.caller.slot.begin_desc(&lane.encode(), &d);
                    let o = ck.caller.call_unjournalled(&lane, &input);
                    ck.caller.slot.end();
                    ck.stats.nodes += 1;
                    counts.push((ops(&o.counters), o.counters.advance_bytes, input.len()));
                }
                let d1 = counts[1].0 as i64 - counts[0].0 as i64;
                let d2 = counts[2].0 as i64 - counts[1].0 as i64;
                ck.stats.pairs_compared += 1;
                if d2 as f64 > 2.2 * d1 as f64 + 64.0 {
                    let lane = Lane::new(f.entry, f.cfg, 0);
                    let d = format!("scaling family={} base={} variant={}", fam, base, vname);
                    ck.relation_tag = "scaling";
                    ck.violation(
                        format!("cursor operations grow super-linearly on family {}: sizes {}/{}/{} -> {}/{}/{} operations", f.name, counts[0].2, counts[1].2, counts[2].2, counts[0].0, counts[1].0, counts[2].0),
                        &lane, d.as_bytes(), format!("increments {} then {}", d1, d2), "second increment <= 2.2 x first".into(), None,
                    );
                    ck.relation_tag = "none";
                }
            }
        }));
    }
    p.phases.push(Phase { label: format!("S8: doubling test, {} families × 3 variants × sizes {}·(1,2,4)", n, base), backend: Backend::Native, tasks });
    p.bounds.push(format!("S8 scaling: cursor-operation counts at N, 2N, 4N with N = {} bytes for {} families × 3 variants; requires ops(4N)-ops(2N) <= 2.2·(ops(2N)-ops(N)) + 64", base, n));
}

fn get_kv(d: &str, k: &str) -> Option<String> {
    d.split_whitespace().find_map(|t| t.strip_prefix(&format!("{}=", k)).map(|s| s.to_string()))
}

pub fn replay(text: &str) -> i32 {
    let prop = json::get_str(text, "property").unwrap_or_default();
    let d = json::get_str(text, "descriptor").or_else(|| json::get_str(text, "input")).unwrap_or_default();
    let armed = json::get_num(text, "armed").unwrap_or(0) as u32;
    let fam: usize = get_kv(&d, "family").and_then(|s| s.parse().ok()).unwrap_or(0);
    let fs = families();
    if fam >= fs.len() {
        eprintln!("unknown family in descriptor {:?}", d);
        return 2;
    }
    let f = &fs[fam];
    let journal = std::sync::Arc::new(crate::journal::Journal::anonymous());
    let caller = Caller::new(journal.slot(0), 6 << 20, 2_000_000);
    let mut ck = Checker::new(&prop, armed, caller);
    ck.limit = 100;
    println!("replaying {} on size family {} ({})", prop, f.name, d);
    if d.starts_with("scaling") {
        let base: usize = get_kv(&d, "base").and_then(|s| s.parse().ok()).unwrap_or(16 << 10);
        let vname = get_kv(&d, "variant").unwrap_or_else(|| "complete".into());
        let mut counts = Vec::new();
        for mult in [1usize, 2, 4] {
            let full = (f.gen)(base * mult);
            let input = variants(&full).into_iter().find(|v| v.0 == vname).map(|v| v.1).unwrap_or(full);
            let lane = Lane::new(f.entry, f.cfg, (base * mult / 3 + 8) as u32);
            let o = ck.caller.call_unjournalled(&lane, &input);
            println!("  size {:>8}: {:?} {} cursor operations, {} bytes travelled", input.len(), o.st, ops(&o.counters), o.counters.advance_bytes);
            counts.push(ops(&o.counters) as i64);
        }
        let (d1, d2) = (counts[1] - counts[0], counts[2] - counts[1]);
        if d2 as f64 > 2.2 * d1 as f64 + 64.0 {
            println!("  VIOLATED : increments {} then {}: super-linear", d1, d2);
            return 1;
        }
        return 0;
    }
    let size: usize = get_kv(&d, "size").and_then(|s| s.parse().ok()).unwrap_or(4096);
    let vname = get_kv(&d, "variant").unwrap_or_else(|| "complete".into());
    let cap: u32 = get_kv(&d, "cap").and_then(|s| s.parse().ok()).unwrap_or(0);
    let full = (f.gen)(size);
    let input = variants(&full).into_iter().find(|v| v.0 == vname).map(|v| v.1).unwrap_or(full);
    let lane = Lane::new(f.entry, f.cfg, cap);
    let mut m = Model::for_entry(lane.entry, lane.cfg, lane.cap);
    m.feed(&input);
    let o = ck.caller.call_unjournalled(&lane, &input);
    println!("  call     : {}", lane.describe());
    println!("  input    : {} bytes, {}", input.len(), printable(&input[..input.len().min(80)]));
    println!("  observed : {}", describe_obs(&o));
    println!("  model    : {:?}", m.status());
    let ok = ck.judge(&lane, &input, &o, Some(&m), None);
    let class_ok = std::mem::discriminant(&o.st) == std::mem::discriminant(&m.status());
    for v in &ck.violations {
        println!("  VIOLATED : {}", v.what);
    }
    if !class_ok {
        println!("  VIOLATED : outcome differs from the reference model");
    }
    if ok && class_ok {
        0
    } else {
        1
    }
}
