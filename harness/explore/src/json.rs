//! Minimal JSON writing (the harness has no serde dependency).

pub fn esc(s: &str) -> String {
    let mut o = String::with_capacity(s.len() + 8);
    for c in s.chars() {
        match c {
            '"' => o.push_str("\\\""),
            '\\' => o.push_str("\\\\"),
            '\n' => o.push_str("\\n"),
            '\r' => o.push_str("\\r"),
            '\t' => o.push_str("\\t"),
            c if (c as u32) < 0x20 => o.push_str(&format!("\\u{:04x}", c as u32)),
            c => o.push(c),
        }
    }
    o
}

pub fn s(v: &str) -> String {
    format!("\"{}\"", esc(v))
}

/// object from (key, already-encoded value) pairs
pub fn obj(kv: &[(&str, String)]) -> String {
    let parts: Vec<String> = kv.iter().map(|(k, v)| format!("\"{}\":{}", k, v)).collect();
    format!("{{{}}}", parts.join(","))
}

pub fn arr(v: &[String]) -> String {
    format!("[{}]", v.join(","))
}

pub fn unhex(s: &str) -> Vec<u8> {
    let b = s.as_bytes();
    (0..b.len() / 2)
        .map(|i| u8::from_str_radix(std::str::from_utf8(&b[2 * i..2 * i + 2]).unwrap(), 16).unwrap())
        .collect()
}

/// Extracts the string value of `"key":"..."` from a flat JSON text (enough for replay files the
/// harness wrote itself).
pub fn get_str(text: &str, key: &str) -> Option<String> {
    let pat = format!("\"{}\":\"", key);
    let i = text.find(&pat)? + pat.len();
    let mut out = String::new();
    let mut chars = text[i..].chars();
    while let Some(c) = chars.next() {
        match c {
            '"' => return Some(out),
            '\\' => match chars.next()? {
                'n' => out.push('\n'),
                'r' => out.push('\r'),
                't' => out.push('\t'),
                'u' => {
                    let h: String = chars.by_ref().take(4).collect();
                    out.push(char::from_u32(u32::from_str_radix(&h, 16).ok()?)?);
                }
                c => out.push(c),
            },
            c => out.push(c),
        }
    }
    None
}

pub fn get_num(text: &str, key: &str) -> Option<u64> {
    let pat = format!("\"{}\":", key);
    let i = text.find(&pat)? + pat.len();
    let d: String = text[i..].chars().take_while(|c| c.is_ascii_digit()).collect();
    d.parse().ok()
}
