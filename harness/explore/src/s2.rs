use crate::call::*;
use crate::oracle::Checker;
use crate::plan::Plan;
pub fn add_entry_sweep(_p: &mut Plan, _q: bool) {}
pub fn add_lane_phase(_p: &mut Plan, _q: bool, _b: &[Backend]) {}
pub fn add_prefix_sweep(_p: &mut Plan, _q: bool, _b: &[Backend]) {}
pub fn add_template_mutations(_p: &mut Plan, _q: bool, _b: &[Backend]) {}
pub fn add_field_sweeps(_p: &mut Plan, _q: bool, _b: &[Backend], _f: &[&str]) {}
pub fn add_templates_for(_p: &mut Plan, _q: bool, _b: &[Backend], _k: &str) {}
pub fn add_chunk_sweeps(_p: &mut Plan, _q: bool) {}
pub fn add_option_templates(_p: &mut Plan, _q: bool) {}
pub fn add_config_templates(_p: &mut Plan, _q: bool) {}
pub fn add_entry_templates(_p: &mut Plan, _q: bool) {}
pub fn add_capacity_templates(_p: &mut Plan, _q: bool) {}
pub fn add_backend_agreement(_p: &mut Plan, _q: bool) {}
pub fn replay_agreement(_ck: &mut Checker, _l: &Lane, _i: &[u8], _r: &str) -> i32 { 0 }
