//! S2 — positional sweeps: all 256 byte values at every position of a set of templates (replace
//! and insert), every prefix of each mutant, and every lane phase (L, p, v) of every scanned field.

use crate::arena::Place;
use crate::call::*;
use crate::model::Model;
use crate::oracle::*;
use crate::plan::Plan;
use crate::runner::{Phase, TaskFn};
use crate::s1::{run_tree, Companions, TreeSpec};
use refmodel::St;
use std::sync::{Arc, Mutex};

#[derive(Clone, Copy, PartialEq, Eq, Debug)]
pub enum TKind {
    Request,
    Response,
    Headers,
    Chunk,
}

#[derive(Clone, Debug)]
pub struct Template {
    pub kind: TKind,
    /// the configuration the template is written for
    pub cfg: u8,
    pub bytes: Vec<u8>,
}

fn t(kind: TKind, cfg: u8, b: &[u8]) -> Template {
    Template { kind, cfg, bytes: b.to_vec() }
}

pub fn templates() -> Vec<Template> {
    use TKind::*;
    let all_resp = C_SPACES_AFTER_NAME | C_FOLDING | C_MULTI_RESP | C_SPACE_BEFORE_FIRST | C_IGNORE_RESP;
    let all_req = C_MULTI_REQ | C_SPACE_BEFORE_FIRST | C_IGNORE_REQ;
    vec![
        t(Request, 0, b"GET / HTTP/1.1\r\nHost: a\r\n\r\n"),
        t(Request, 0, b"POST /x?y=z HTTP/1.0\nA: b\n\n"),
        t(Request, 0, b"\r\n\nOPTIONS * HTTP/1.1\r\nA-b:  v w \t\r\nC:\r\n\r\nbody"),
        t(Request, 0, b"GET /\xc3\xa9\xe2\x82\xac HTTP/1.1\r\nK: \x80\xffv\r\n\r\n"),
        t(Request, 0, b"GET /\xf0\x9f\x98\x80x\xf4\x8f\xbf\xbf HTTP/1.1\r\n\r\n"),
        t(Request, 0, b"PUT /p HTTP/1.1\r\nLonger-Name-Of-Forty-Bytes-Abcdefghijklm: 0123456789012345678901234567890123456789\r\n\r\n"),
        t(Request, C_MULTI_REQ, b"GET   /a   HTTP/1.1\r\nH: v\r\n\r\n"),
        t(Request, C_IGNORE_REQ, b"GET / HTTP/1.1\r\nbad line\r\nOk: 1\r\n: x\r\n\r\n"),
        t(Request, C_SPACE_BEFORE_FIRST, b"GET / HTTP/1.1\r\n \tA: b\r\n\r\n"),
        t(Request, all_req, b"G  /  HTTP/1.0\n  bad\n A:1\n\n"),
        t(Response, 0, b"HTTP/1.1 200 OK\r\nServer: x\r\n\r\n"),
        t(Response, 0, b"HTTP/1.0 404 Not Found\nA: b\n\nbody"),
        t(Response, 0, b"HTTP/1.1 204\r\n\r\n"),
        t(Response, 0, b"\r\nHTTP/1.1 500 \r\nX: y\r\n\r\n"),
        t(Response, 0, b"HTTP/1.1 200 R\xe9ason\r\nA:b\r\n\r\n"),
        t(Response, 0, b"HTTP/1.1 200  two spaces \t\r\n\r\n"),
        t(Response, C_FOLDING, b"HTTP/1.1 200 OK\r\nF: a\r\n b\r\n\tc \r\nG:\r\n \r\nH: \r\n x\r\n\r\n"),
        t(Response, C_SPACES_AFTER_NAME, b"HTTP/1.1 200 OK\r\nName \t: v\r\n\r\n"),
        t(Response, C_MULTI_RESP, b"HTTP/1.1   200   OK\r\nA: b\r\n\r\n"),
        t(Response, C_IGNORE_RESP, b"HTTP/1.1 200 OK\r\n: empty\r\nbad\x01x: y\r\nGood: 1\r\nnocolon\r\nV: a\x7fb\r\n\r\n"),
        t(Response, C_SPACE_BEFORE_FIRST, b"HTTP/1.1 200 OK\r\n \tA: b\r\n\r\n"),
        t(Response, all_resp, b"HTTP/1.1  200  OK\r\n  bad\r\n A : 1\r\n  2\r\nB\t:\r\n\r\n"),
        t(Response, C_FOLDING | C_IGNORE_RESP, b"HTTP/1.1 200 OK\r\nA: b\r\n c\x01\r\n d\r\nE: f\r\n\r\n"),
        t(Headers, 0, b"Host: foo.bar\nAccept: */*\n\nblah blah"),
        t(Headers, 0, b"A:1\r\nB: 2\r\nC:  3  \r\nD:\t\r\n\r\n"),
        t(Chunk, 0, b"4\r\nRust"),
        t(Chunk, 0, b"fF0;ext=1\r\n"),
        t(Chunk, 0, b"10 \t;x\r\n"),
        t(Chunk, 0, b"ffffffffffffffff\r\n"),
    ]
}

fn entry_for(kind: TKind) -> Entry {
    match kind {
        TKind::Request => Entry::ReqCfg,
        TKind::Response => Entry::RespCfg,
        TKind::Headers => Entry::Headers,
        TKind::Chunk => Entry::Chunk,
    }
}

/// Every single-byte mutant of `t`: t itself, t[i] := v, and v inserted at i.
pub fn for_each_mutant(t: &[u8], f: &mut dyn FnMut(&[u8])) {
    let mut buf = t.to_vec();
    f(&buf);
    for i in 0..t.len() {
        let orig = buf[i];
        for v in 0..=255u8 {
            if v != orig {
                buf[i] = v;
                f(&buf);
            }
        }
        buf[i] = orig;
    }
    let mut ins = Vec::with_capacity(t.len() + 1);
    for i in 0..=t.len() {
        ins.clear();
        ins.extend_from_slice(&t[..i]);
        ins.push(0);
        ins.extend_from_slice(&t[i..]);
        for v in 0..=255u8 {
            ins[i] = v;
            f(&ins);
        }
    }
}

fn quick_templates(q: bool) -> Vec<Template> {
    let all = templates();
    if q {
        // one of each flavour
        [0usize, 2, 3, 4, 7, 10, 14, 16, 19, 21, 23, 26].iter().map(|&i| all[i].clone()).collect()
    } else {
        all
    }
}

/// configs under which a template is explored: its own, the default, and the all-lenient one
fn cfgs_for(t: &Template) -> Vec<u8> {
    let mut v = vec![t.cfg];
    if t.cfg != 0 {
        v.push(0);
    }
    if t.kind == TKind::Request || t.kind == TKind::Response {
        if t.cfg != 0x7F {
            v.push(0x7F);
        }
    }
    v
}

fn one_shot(ck: &mut Checker, lane: &Lane, input: &[u8]) {
    let mut m = Model::for_entry(lane.entry, lane.cfg, lane.cap);
    m.feed(input);
    ck.eval(lane, input, Some(&m), None);
}

fn mutation_tasks(ts: &[Template], backend: Backend, cap: u32) -> Vec<TaskFn> {
    let mut tasks: Vec<TaskFn> = Vec::new();
    for t in ts {
        for cfg in cfgs_for(t) {
            let t = t.clone();
            tasks.push(Box::new(move |ck: &mut Checker| {
                let lane = Lane { backend, ..Lane::new(entry_for(t.kind), cfg, cap) };
                for_each_mutant(&t.bytes, &mut |input| {
                    if !ck.full() {
                        one_shot(ck, &lane, input);
                    }
                });
            }));
        }
    }
    tasks
}

/// S2(a): template mutation, one-shot against the model and the armed oracles.
pub fn add_template_mutations(p: &mut Plan, q: bool, backends: &[Backend]) {
    let ts = quick_templates(q);
    for &b in backends {
        p.phases.push(Phase { label: format!("S2a: {} templates × (replace+insert) × 256 values × own/default/all-lenient config", ts.len()), backend: b, tasks: mutation_tasks(&ts, b, 8) });
    }
    p.bounds.push(format!("S2a: {} templates, every position, all 256 values (replace and insert), configs own/default/all-lenient, backends {:?}", ts.len(), backends.iter().map(|b| b.name()).collect::<Vec<_>>()));
}

pub fn add_templates_for(p: &mut Plan, q: bool, backends: &[Backend], kind: &str) {
    let k = match kind {
        "request" => TKind::Request,
        "response" => TKind::Response,
        _ => TKind::Headers,
    };
    let mut ts: Vec<Template> = quick_templates(q).into_iter().filter(|t| t.kind == k).collect();
    if k == TKind::Headers {
        // default-config header blocks also inside request and response heads
        ts.extend(quick_templates(q).into_iter().filter(|t| t.cfg == 0 && (t.kind == TKind::Request || t.kind == TKind::Response)));
    }
    // only the default / own multi-space config matters for these properties: keep all three anyway
    for &b in backends {
        p.phases.push(Phase { label: format!("S2a: {} {} templates × 256 values at every position", ts.len(), kind), backend: b, tasks: mutation_tasks(&ts, b, 8) });
    }
    p.bounds.push(format!("S2a: {} {} templates, every position, all 256 values (replace and insert)", ts.len(), kind));
}

/// C14: the option templates under every subset of the header options of their kind.
pub fn add_option_templates(p: &mut Plan, q: bool) {
    let ts: Vec<Template> = quick_templates(q).into_iter().filter(|t| t.kind == TKind::Request || t.kind == TKind::Response).collect();
    let mut tasks: Vec<TaskFn> = Vec::new();
    let mut n = 0;
    for t in &ts {
        let own = if t.kind == TKind::Request { C_SPACE_BEFORE_FIRST | C_IGNORE_REQ } else { C_SPACES_AFTER_NAME | C_FOLDING | C_SPACE_BEFORE_FIRST | C_IGNORE_RESP };
        let mut sub = own;
        loop {
            let cfg = sub;
            let t = t.clone();
            n += 1;
            tasks.push(Box::new(move |ck: &mut Checker| {
                let lane = Lane::new(entry_for(t.kind), cfg, 8);
                for_each_mutant(&t.bytes, &mut |input| {
                    if !ck.full() {
                        one_shot(ck, &lane, input);
                    }
                });
            }));
            if sub == 0 {
                break;
            }
            sub = (sub - 1) & own;
        }
    }
    p.phases.push(Phase { label: format!("S2a: {} head templates × every header-option subset of their kind ({} lanes) × 256 values at every position", ts.len(), n), backend: Backend::Native, tasks });
    p.bounds.push(format!("S2a: {} head templates × all header-option subsets (16 response / 4 request), every position, all 256 values", ts.len()));
}

fn companion_template_tasks(ts: &[Template], comp: Companions, cfgs: &dyn Fn(&Template) -> Vec<u8>, cap: u32) -> Vec<TaskFn> {
    let mut tasks: Vec<TaskFn> = Vec::new();
    for t in ts {
        for cfg in cfgs(t) {
            let t = t.clone();
            let comp = comp.clone();
            tasks.push(Box::new(move |ck: &mut Checker| {
                let lane = Lane::new(entry_for(t.kind), cfg, cap);
                let mut spec = TreeSpec { lane, ctx: Vec::new(), alphabet: vec![], depth: 0, extra: 0, companions: comp.clone() };
                for_each_mutant(&t.bytes, &mut |input| {
                    if !ck.full() {
                        spec.ctx.clear();
                        spec.ctx.extend_from_slice(input);
                        run_tree(ck, &spec, None);
                    }
                });
            }));
        }
    }
    tasks
}

/// C15 on template mutants.
pub fn add_config_templates(p: &mut Plan, q: bool) {
    let ts: Vec<Template> = quick_templates(q).into_iter().filter(|t| t.kind == TKind::Request || t.kind == TKind::Response).collect();
    let def: Vec<Template> = ts.iter().filter(|t| t.cfg == 0).cloned().collect();
    p.phases.push(Phase {
        label: format!("S2a: {} default templates × mutants; default-Complete ones under all 128 configs", def.len()),
        backend: Backend::Native,
        tasks: companion_template_tasks(&def, Companions::AllConfigs, &|_| vec![0], 8),
    });
    p.phases.push(Phase {
        label: format!("S2a: {} head templates × mutants × other-kind option subsets", ts.len()),
        backend: Backend::Native,
        tasks: companion_template_tasks(&ts, Companions::OtherKind, &|t| {
            let own = if t.kind == TKind::Request { REQ_BITS } else { RESP_BITS };
            let mut v = vec![t.cfg & own];
            if t.cfg & own != 0 {
                v.push(0);
            }
            v
        }, 8),
    });
    p.bounds.push(format!("S2a: mutants (256 values × every position) of {} default templates × 128 configs when default-Complete; of {} head templates × other-kind option subsets", def.len(), ts.len()));
}


/// C15 beyond the trees and templates: default-accepted inputs with long whitespace runs, long
/// runs of spaces in front of every possible first reason byte, and long fields — each under all
/// 128 configurations (the comparison runs only on inputs the default configuration completes).
pub fn add_config_sweeps(p: &mut Plan, q: bool) {
    let mut tasks: Vec<TaskFn> = Vec::new();
    let counts: Vec<usize> = (0..=40usize).chain([47, 63, 64, 65, 66, 100, 127, 128, 129, 130, 255, 256, 257, 258, 259, 300]).collect();
    // (a) SP^n X "eason" after the status code, every X; SP / HTAB runs around header values
    {
        let counts = counts.clone();
        tasks.push(Box::new(move |ck: &mut Checker| {
            let mut spec = TreeSpec { lane: Lane::new(Entry::RespCfg, 0, 4), ctx: Vec::new(), alphabet: vec![], depth: 0, extra: 0, companions: Companions::AllConfigs };
            for &n in &counts {
                for x in 0..=255u8 {
                    for tail in [&b"eason text\r\nA: b\r\n\r\n"[..], b"\r\n\r\n", b"x\n\n"] {
                        spec.ctx.clear();
                        spec.ctx.extend_from_slice(b"HTTP/1.1 200");
                        spec.ctx.extend(std::iter::repeat(b' ').take(n));
                        spec.ctx.push(x);
                        spec.ctx.extend_from_slice(tail);
                        run_tree(ck, &spec, None);
                        if ck.full() {
                            return;
                        }
                    }
                }
            }
        }));
    }
    for (e, pre, post) in [
        (Entry::ReqCfg, &b"GET / HTTP/1.1\r\nConnection:"[..], &b"close\r\n\r\n"[..]),
        (Entry::ReqCfg, b"GET / HTTP/1.1\r\nConnection: close", b"\r\nB: 1\r\n\r\n"),
        (Entry::RespCfg, b"HTTP/1.1 200 OK\r\nA:", b"\r\n\r\n"),
        (Entry::RespCfg, b"HTTP/1.1 200 OK\r\nA: x", b"y\r\nB:1\r\n\r\n"),
        (Entry::RespCfg, b"HTTP/1.1 200 OK", b"\r\n\r\n"),
        (Entry::RespCfg, b"HTTP/1.1 200 O", b"K\r\n\r\n"),
        (Entry::ReqCfg, b"", b"GET / HTTP/1.1\r\n\r\n"),
    ] {
        let counts = counts.clone();
        tasks.push(Box::new(move |ck: &mut Checker| {
            let mut spec = TreeSpec { lane: Lane::new(e, 0, 4), ctx: Vec::new(), alphabet: vec![], depth: 0, extra: 0, companions: Companions::AllConfigs };
            for &n in &counts {
                for pat in 0..4 {
                    spec.ctx.clear();
                    spec.ctx.extend_from_slice(pre);
                    for i in 0..n {
                        spec.ctx.push(match pat {
                            0 => b' ',
                            1 => b'\t',
                            2 => if i % 2 == 0 { b' ' } else { b'\t' },
                            _ => if i == 0 { b'\t' } else { b' ' },
                        });
                    }
                    spec.ctx.extend_from_slice(post);
                    run_tree(ck, &spec, None);
                    if ck.full() {
                        return;
                    }
                }
            }
        }));
    }
    // (a') runs of one byte value at the end of a value / reason (word-at-a-time trimming tricks
    // that only an option switches on), with and without blanks behind them
    for (e, pre, post) in [
        (Entry::RespCfg, &b"HTTP/1.1 200 OK\r\nX-Title: Resum"[..], &b"\r\nB: 1\r\n\r\n"[..]),
        (Entry::ReqCfg, b"GET / HTTP/1.1\r\nX-Title: Resum", b"\r\n\r\n"),
        (Entry::RespCfg, b"HTTP/1.1 200 Resum", b"\r\n\r\n"),
        (Entry::RespCfg, b"HTTP/1.1 200 OK\r\nA:", b"\n\n"),
    ] {
        tasks.push(Box::new(move |ck: &mut Checker| {
            let mut spec = TreeSpec { lane: Lane::new(e, 0, 4), ctx: Vec::new(), alphabet: vec![], depth: 0, extra: 0, companions: Companions::AllConfigs };
            for x in [0x80u8, 0xa0, 0xa1, 0xa9, 0xc3, 0xe9, 0xff, b'!', b'~', b'\t', b' ', b'a'] {
                for k in 0..=33usize {
                    for blanks in [0usize, 1, 7, 8, 9] {
                        for first in [x, 0xc3] {
                            spec.ctx.clear();
                            spec.ctx.extend_from_slice(pre);
                            for i in 0..k {
                                spec.ctx.push(if i == 0 { first } else { x });
                            }
                            spec.ctx.extend(std::iter::repeat(b' ').take(blanks));
                            spec.ctx.extend_from_slice(post);
                            run_tree(ck, &spec, None);
                        }
                    }
                    if ck.full() {
                        return;
                    }
                }
            }
        }));
    }
    // (b) long fields of the default lanes
    let step = if q { 9 } else { 2 };
    for f in FIELDS.iter().filter(|f| f.cfg == 0 && (f.entry.is_req() || f.entry.is_resp())) {
        for post in long_posts(f) {
            let f = *f;
            tasks.push(Box::new(move |ck: &mut Checker| {
                let mut spec = TreeSpec { lane: Lane::new(f.entry, 0, 8), ctx: Vec::new(), alphabet: vec![], depth: 0, extra: 0, companions: Companions::AllConfigs };
                for l in (60..=300usize).step_by(step) {
                    for pos in 0..=l {
                        for &v in LONG_VALS.iter() {
                            spec.ctx.clear();
                            spec.ctx.extend_from_slice(f.pre);
                            spec.ctx.extend(std::iter::repeat(f.fill).take(l));
                            spec.ctx.extend_from_slice(&post);
                            if pos < l {
                                spec.ctx[f.pre.len() + pos] = v;
                            }
                            run_tree(ck, &spec, None);
                            if ck.full() {
                                return;
                            }
                            if pos == l {
                                break;
                            }
                        }
                    }
                }
            }));
        }
    }
    p.phases.push(Phase { label: "S2c: default-accepted whitespace runs (to 300), spaces before every first reason byte, long fields — under all 128 configs".into(), backend: Backend::Native, tasks });
    p.bounds.push(format!("C15 sweeps: SP^n X after the status code for n in 0..=40 and {{47,63..66,100,127..130,255..259,300}} × all 256 X × 3 tails; SP/HTAB runs of those lengths (4 patterns) at 7 default-grammar positions; runs of 0..=33 equal bytes (12 values) at the end of a value / reason with 0 / 1 / 7 / 8 / 9 blanks behind; long fields (length 60..=300 step {step}, 13 boundary bytes at every position, 3 remainders) — every default-Complete input under the other 127 configurations"));
}

/// C16 on template mutants.
pub fn add_entry_templates(p: &mut Plan, q: bool) {
    let ts: Vec<Template> = quick_templates(q).into_iter().filter(|t| t.kind == TKind::Request || t.kind == TKind::Response).collect();
    p.phases.push(Phase {
        label: format!("S2a: {} head templates × mutants on all 4 entry points of their kind", ts.len()),
        backend: Backend::Native,
        tasks: companion_template_tasks(&ts, Companions::Entries, &|t| if t.cfg == 0 { vec![0] } else { vec![t.cfg, 0] }, 3),
    });
    let hs: Vec<Template> = quick_templates(q).into_iter().filter(|t| t.kind == TKind::Headers).collect();
    p.phases.push(Phase {
        label: format!("S2a: {} header-block templates × mutants in lock-step with request and response heads", hs.len()),
        backend: Backend::Native,
        tasks: companion_template_tasks(&hs, Companions::Lockstep, &|_| vec![0], 3),
    });
    p.bounds.push(format!("S2a: mutants of {} head templates on all entry points of their kind, of {} header-block templates in lock-step", ts.len(), hs.len()));
}


/// C16 beyond the trees: header counts up to 513 (five minimal line shapes, capacities around the
/// count) and the size families at 0.6 / 4.2 / 7.9 KB in five variants, every input on all entry
/// points of its kind (parse_headers in lock-step with request and response heads).
pub fn add_entry_long(p: &mut Plan, q: bool) {
    let kmax: usize = if q { 24 } else { 72 };
    let shapes: [&[u8]; 5] = [b"a:\n", b"a:b\n", b"a: b\r\n", b"ab:\r\n", b"a:\t \n"];
    let mut tasks: Vec<TaskFn> = Vec::new();
    for e in [Entry::Headers, Entry::ReqCfg, Entry::RespCfg] {
        for shape in shapes.iter() {
            let shape: &'static [u8] = shape;
            tasks.push(Box::new(move |ck: &mut Checker| {
                let start: &[u8] = if e.is_req() { b"GET / HTTP/1.1\n" } else if e.is_resp() { b"HTTP/1.1 200\n" } else { b"" };
                let comp = if e == Entry::Headers { Companions::Lockstep } else { Companions::Entries };
                for k in (0..=kmax).chain(HC_LONG.iter().copied()) {
                    let mut head = start.to_vec();
                    for _ in 0..k {
                        head.extend_from_slice(shape);
                    }
                    let mut caps: Vec<u32> = vec![k as u32, k as u32 + 1, 2 * k as u32 + 4];
                    if k > 0 {
                        caps.push(k as u32 - 1);
                    }
                    for cap in caps {
                        let mut spec = TreeSpec { lane: Lane::new(e, 0, cap), ctx: Vec::new(), alphabet: vec![], depth: 0, extra: 0, companions: comp.clone() };
                        for tail in [&b"\n"[..], b"", b"a:", b"(\r\n\r\n"] {
                            spec.ctx.clear();
                            spec.ctx.extend_from_slice(&head);
                            spec.ctx.extend_from_slice(tail);
                            run_tree(ck, &spec, None);
                            if ck.full() {
                                return;
                            }
                        }
                    }
                }
            }));
        }
    }
    let nf = crate::s8::families().len();
    for fam in 0..nf {
        tasks.push(Box::new(move |ck: &mut Checker| {
            let fs = crate::s8::families();
            let f = &fs[fam];
            if !(f.entry.is_req() || f.entry.is_resp()) {
                return;
            }
            for size in [600usize, 4200, 7900, 20000, 70000] {
                let full = (f.gen)(size);
                for (_, input) in crate::s8::variants(&full) {
                    for cap in [1u32, (size / 3 + 8) as u32] {
                        let spec = TreeSpec { lane: Lane::new(f.entry, f.cfg, cap), ctx: input.clone(), alphabet: vec![], depth: 0, extra: 0, companions: Companions::Entries };
                        run_tree(ck, &spec, None);
                        if ck.full() {
                            return;
                        }
                    }
                }
            }
        }));
    }
    p.phases.push(Phase { label: format!("S2c/S8: header counts 0..={} and 99..513 × 5 shapes × 4 capacities × 4 tails, and {} size families × 5 sizes × up to 10 variants × 2 capacities, on every entry point of the kind", kmax, nf), backend: Backend::Native, tasks });
    p.bounds.push(format!("entry-point agreement on long inputs: k = 0..={} and {{99..102,127..130,255..257,300,511,513}} minimal header lines (5 shapes, capacities k-1, k, k+1, 2k+4, 4 tails); size families at 600 / 4200 / 7900 / 20000 / 70000 bytes (complete, truncated, erroneous, with body; capacity 1 and enough)", kmax));
}

/// C17 on template mutants: capacity 16 against capacities 0..=4 (templates have <= 4 headers... up to k+2).
pub fn add_capacity_templates(p: &mut Plan, q: bool) {
    let ts: Vec<Template> = quick_templates(q).into_iter().filter(|t| t.kind != TKind::Chunk).collect();
    let mut tasks: Vec<TaskFn> = Vec::new();
    for t in &ts {
        let entries: Vec<Entry> = match t.kind {
            TKind::Request => vec![Entry::ReqCfg, Entry::ReqCfgUninit],
            TKind::Response => vec![Entry::RespCfg, Entry::RespCfgUninit],
            _ => vec![Entry::Headers],
        };
        for e in entries {
            let t = t.clone();
            tasks.push(Box::new(move |ck: &mut Checker| {
                let lane = Lane::new(e, t.cfg, 16);
                let mut spec = TreeSpec { lane, ctx: Vec::new(), alphabet: vec![], depth: 0, extra: 0, companions: Companions::Capacities(vec![0, 1, 2, 3, 4, 5, 6, 7]) };
                for_each_mutant(&t.bytes, &mut |input| {
                    if !ck.full() {
                        spec.ctx.clear();
                        spec.ctx.extend_from_slice(input);
                        run_tree(ck, &spec, None);
                    }
                });
            }));
        }
    }
    p.phases.push(Phase { label: format!("S2a: {} templates × mutants × init/uninit entry points × capacities 0..=7 against 16", ts.len()), backend: Backend::Native, tasks });
    p.bounds.push(format!("S2a: mutants of {} templates, capacities 0..=7 and 16, init and uninit entry points", ts.len()));
}

/// C17 / C10: k minimal header lines of several shapes against capacities around k — the
/// capacity law for header counts well beyond what the symbol trees reach.
const HC_LONG: [usize; 14] = [99, 100, 101, 102, 127, 128, 129, 130, 255, 256, 257, 300, 511, 513];

pub fn add_header_count_sweep(p: &mut Plan, q: bool) {
    let kmax: usize = if q { 24 } else { 72 };
    let shapes: [&[u8]; 5] = [b"a:\n", b"a:b\n", b"a: b\r\n", b"ab:\r\n", b"a:\t \n"];
    let mut tasks: Vec<TaskFn> = Vec::new();
    for e in [Entry::Headers, Entry::ReqCfg, Entry::RespCfg, Entry::ReqCfgUninit, Entry::RespCfgUninit] {
        for (si, shape) in shapes.iter().enumerate() {
            let shape: &'static [u8] = shape;
            tasks.push(Box::new(move |ck: &mut Checker| {
                let starts: Vec<&[u8]> = if e.is_req() { vec![b"GET / HTTP/1.1\r\n", b"GET / HTTP/1.1\n"] } else if e.is_resp() { vec![b"HTTP/1.1 200 OK\r\n", b"HTTP/1.1 200\n"] } else { vec![b""] };
                let _ = si;
                for start in starts {
                    for k in (0..=kmax).chain(HC_LONG.iter().copied()) {
                        let mut head = start.to_vec();
                        for _ in 0..k {
                            head.extend_from_slice(shape);
                        }
                        let mut caps: Vec<u32> = vec![0, k as u32, k as u32 + 1, 2 * k as u32 + 4];
                        if k > 0 {
                            caps.push(k as u32 - 1);
                        }
                        caps.sort();
                        caps.dedup();
                        for cap in caps {
                            let lane = Lane::new(e, 0, cap);
                            for tail in [&b"\r\n"[..], b"\n", b"", b"a", b"a:", b"(\r\n\r\n"] {
                                let mut buf = head.clone();
                                buf.extend_from_slice(tail);
                                one_shot(ck, &lane, &buf);
                                if ck.full() {
                                    return;
                                }
                            }
                        }
                    }
                }
            }));
        }
    }
    p.phases.push(Phase { label: format!("S2c: 0..={} and 99..513 (14 counts) minimal header lines × 5 shapes × capacities 0, k-1, k, k+1, 2k+4 × 6 tails × 5 entry points", kmax), backend: Backend::Native, tasks });
    p.bounds.push(format!("S2c header counts: k = 0..={} and k in {{99..102,127..130,255..257,300,511,513}} lines of shapes a:LF / a:bLF / a: bCRLF / ab:CRLF / a:HTAB SP LF, capacities 0, k-1, k, k+1, 2k+4, tails (CRLF, LF, none, partial name, partial value, invalid line), parse_headers / request / response, initialised and uninit", kmax));
}

/// C01 / C19: every template mutant through all ten entry points (also those of the wrong kind).
pub fn add_entry_sweep(p: &mut Plan, q: bool) {
    let ts = quick_templates(q);
    let mut tasks: Vec<TaskFn> = Vec::new();
    for t in &ts {
        for e in ALL_ENTRIES {
            let t = t.clone();
            tasks.push(Box::new(move |ck: &mut Checker| {
                let cfgs: Vec<u8> = if e.takes_config() { vec![t.cfg, 0x7F] } else { vec![0] };
                for cfg in cfgs {
                    for cap in [0u32, 1, 16] {
                        if e == Entry::Chunk && cap != 0 {
                            continue;
                        }
                        let lane = Lane::new(e, cfg, cap);
                        for_each_mutant(&t.bytes, &mut |input| {
                            if !ck.full() {
                                one_shot(ck, &lane, input);
                            }
                        });
                    }
                }
            }));
        }
    }
    p.phases.push(Phase { label: format!("S2a: {} templates × mutants × all 10 entry points × capacities 0,1,16 × own/all-lenient config", ts.len()), backend: Backend::Native, tasks });
    p.bounds.push(format!("S2a: mutants of {} templates through all 10 entry points, capacities 0/1/16", ts.len()));
}

/// C02 / C11: every prefix of every mutant, walked in order with the streaming oracle.
pub fn add_prefix_sweep(p: &mut Plan, q: bool, backends: &[Backend]) {
    let ts = quick_templates(q);
    for &b in backends {
        let mut tasks: Vec<TaskFn> = Vec::new();
        for t in &ts {
            for cfg in cfgs_for(t) {
                for cap in [1u32, 16] {
                    if t.kind == TKind::Chunk && cap != 1 {
                        continue;
                    }
                    let t = t.clone();
                    tasks.push(Box::new(move |ck: &mut Checker| {
                        let lane = Lane { backend: b, ..Lane::new(entry_for(t.kind), cfg, cap) };
                        // mutants share prefixes: the prefix chain of each mutant is walked from the
                        // first changed byte on; shorter prefixes belong to the unmutated template
                        for_each_mutant(&t.bytes, &mut |input| {
                            if ck.full() {
                                return;
                            }
                            let mut m = Model::for_entry(lane.entry, lane.cfg, lane.cap);
                            let mut parent: Option<(Obs, usize)> = None;
                            for k in 0..=input.len() {
                                if k > 0 {
                                    m.step(input[k - 1]);
                                }
                                let (o, ok) = ck.eval(&lane, &input[..k], Some(&m), parent.as_ref().map(|(o, l)| (o, *l)));
                                if !ok {
                                    break;
                                }
                                if k == input.len() {
                                    let mut b = input.to_vec();
                                    append_tails(ck, &lane, &mut b, &m, &o);
                                }
                                // once terminal, one more prefix and the full input are enough
                                if o.st != St::Partial && k + 1 < input.len() {
                                    let mut mm = m;
                                    mm.feed(&input[k..]);
                                    let (of, okf) = ck.eval(&lane, input, Some(&mm), Some((&o, k)));
                                    if okf {
                                        let mut b = input.to_vec();
                                        append_tails(ck, &lane, &mut b, &mm, &of);
                                    }
                                    break;
                                }
                                parent = Some((o, k));
                            }
                        });
                    }));
                }
            }
        }
        p.phases.push(Phase { label: format!("S2a: every prefix of every mutant of {} templates (split-point quantifier)", ts.len()), backend: b, tasks });
    }
    p.bounds.push(format!("S2a prefixes: {} templates × 256 values × every position × every split point, configs own/default/all-lenient, capacities 1 and 16", ts.len()));
}

// --------------------------------------------------------------------------------------------
// S2(b): lane-phase sweeps
// --------------------------------------------------------------------------------------------

#[derive(Clone, Copy, Debug)]
pub struct Field {
    pub name: &'static str,
    pub entry: Entry,
    pub cfg: u8,
    pub pre: &'static [u8],
    pub post: &'static [u8],
    pub fill: u8,
}

pub const FIELDS: [Field; 11] = [
    Field { name: "method", entry: Entry::ReqCfg, cfg: 0, pre: b"", post: b" / HTTP/1.1\r\n\r\n", fill: b'A' },
    Field { name: "target", entry: Entry::ReqCfg, cfg: 0, pre: b"GET ", post: b" HTTP/1.1\r\n\r\n", fill: b'/' },
    Field { name: "header-name", entry: Entry::ReqCfg, cfg: 0, pre: b"GET / HTTP/1.1\r\n", post: b": v\r\n\r\n", fill: b'n' },
    Field { name: "header-name", entry: Entry::Headers, cfg: 0, pre: b"", post: b":v\n\n", fill: b'N' },
    Field { name: "header-value", entry: Entry::RespCfg, cfg: 0, pre: b"HTTP/1.1 200 OK\r\nN: ", post: b"\r\n\r\n", fill: b'v' },
    Field { name: "header-value", entry: Entry::RespCfg, cfg: C_FOLDING | C_IGNORE_RESP, pre: b"HTTP/1.1 200 OK\r\nN:", post: b"\n\n", fill: b'w' },
    Field { name: "reason", entry: Entry::RespCfg, cfg: 0, pre: b"HTTP/1.1 200 ", post: b"\r\n\r\n", fill: b'r' },
    Field { name: "chunk-ext", entry: Entry::Chunk, cfg: 0, pre: b"1;", post: b"\r\n", fill: b'e' },
    Field { name: "chunk-digits", entry: Entry::Chunk, cfg: 0, pre: b"", post: b"\r\n", fill: b'1' },
    // the rest of a line that is already being dropped (ignore-invalid-headers): NUL and lone CR
    // must still be seen, everything else is skipped up to the line end
    Field { name: "dropped-line", entry: Entry::RespCfg, cfg: C_IGNORE_RESP, pre: b"HTTP/1.1 200 OK\r\nA: 1\r\nbad\x01", post: b"\r\nB: 2\r\n\r\n", fill: b'x' },
    Field { name: "dropped-line", entry: Entry::ReqCfg, cfg: C_IGNORE_REQ, pre: b"GET / HTTP/1.1\r\n: ", post: b"\nB: 2\n\n", fill: b'y' },
];

fn lane_phase_inputs(f: &Field, lmax: usize, g: &mut dyn FnMut(&[u8])) {
    let mut buf = Vec::new();
    for l in 0..=lmax {
        buf.clear();
        buf.extend_from_slice(f.pre);
        buf.extend(std::iter::repeat(f.fill).take(l));
        buf.extend_from_slice(f.post);
        g(&buf);
        let base = f.pre.len();
        for pos in 0..l {
            for v in 0..=255u8 {
                if v != f.fill {
                    buf[base + pos] = v;
                    g(&buf);
                }
            }
            buf[base + pos] = f.fill;
        }
    }
}

fn lane_phase_tasks(fields: &[Field], lmax: usize, backend: Backend) -> Vec<TaskFn> {
    let mut tasks: Vec<TaskFn> = Vec::new();
    for f in fields {
        // split by length band so that 16 workers share one field
        for band in 0..4 {
            let f = *f;
            tasks.push(Box::new(move |ck: &mut Checker| {
                let lane = Lane { backend, ..Lane::new(f.entry, f.cfg, 2) };
                let mut buf = Vec::new();
                for l in (0..=lmax).filter(|l| l % 4 == band) {
                    buf.clear();
                    buf.extend_from_slice(f.pre);
                    buf.extend(std::iter::repeat(f.fill).take(l));
                    buf.extend_from_slice(f.post);
                    one_shot(ck, &lane, &buf);
                    let base = f.pre.len();
                    for pos in 0..l {
                        for v in 0..=255u8 {
                            if v != f.fill && !ck.full() {
                                buf[base + pos] = v;
                                one_shot(ck, &lane, &buf);
                            }
                        }
                        buf[base + pos] = f.fill;
                    }
                }
            }));
        }
    }
    tasks
}

/// All 65536 byte pairs at every adjacent position pair of a field (carries between neighbouring
/// lanes, two cooperating bytes such as 0xFF followed by a control byte, UTF-8 pairs in a reason).
pub fn add_pair_sweeps(p: &mut Plan, q: bool, backends: &[Backend], names: &[&str]) {
    let fields: Vec<Field> = FIELDS.iter().filter(|f| names.is_empty() || names.contains(&f.name)).cloned().collect();
    let lens: Vec<usize> = if q { vec![2, 9, 17] } else { vec![2, 5, 9, 17, 33, 41] };
    for &b in backends {
        let mut tasks: Vec<TaskFn> = Vec::new();
        for f in &fields {
            for &l in &lens {
                let f = *f;
                tasks.push(Box::new(move |ck: &mut Checker| {
                    let lane = Lane { backend: b, ..Lane::new(f.entry, f.cfg, 2) };
                    let mut buf = Vec::new();
                    buf.extend_from_slice(f.pre);
                    buf.extend(std::iter::repeat(f.fill).take(l));
                    buf.extend_from_slice(f.post);
                    let base = f.pre.len();
                    for pos in 0..l - 1 {
                        for x in 0..=255u8 {
                            for y in 0..=255u8 {
                                buf[base + pos] = x;
                                buf[base + pos + 1] = y;
                                one_shot(ck, &lane, &buf);
                            }
                            if ck.full() {
                                return;
                            }
                        }
                        buf[base + pos] = f.fill;
                        buf[base + pos + 1] = f.fill;
                    }
                }));
            }
        }
        p.phases.push(Phase { label: format!("S2b: all 65536 byte pairs at adjacent positions of {} fields, lengths {:?}", fields.len(), lens), backend: b, tasks });
    }
    p.bounds.push(format!("S2b pairs: every (x, y) in 256x256 at positions (i, i+1) of fields {:?}, run lengths {:?}, backends {:?}", fields.iter().map(|f| f.name).collect::<Vec<_>>(), lens, backends.iter().map(|b| b.name()).collect::<Vec<_>>()));
}

/// Whitespace runs of every length 0..=40 (four SP/HTAB patterns) at every place of the grammars
/// where a run may or may not occur: fast paths that skip blanks in blocks depend on the run length.
const WS_LONG: usize = 300;

/// (entry, config, bytes before the run, bytes after it) for the foreign-byte run sweep
fn ws_foreign_slots() -> Vec<(Entry, u8, &'static [u8], &'static [u8])> {
    vec![
        (Entry::RespCfg, C_SPACE_BEFORE_FIRST, b"HTTP/1.1 200 OK\r\n", b"A: b\r\n\r\n"),
        (Entry::RespCfg, C_SPACE_BEFORE_FIRST, b"HTTP/1.1 200 OK\r\n", b"\r\n\r\n"),
        (Entry::ReqCfg, C_SPACE_BEFORE_FIRST | C_IGNORE_REQ, b"GET / HTTP/1.1\r\n", b"\r\nA: b\r\n\r\n"),
        (Entry::RespCfg, C_SPACE_BEFORE_FIRST | C_IGNORE_RESP | C_FOLDING, b"HTTP/1.1 200 OK\r\n", b"\r\nA: b\r\n\r\n"),
        (Entry::ReqCfg, 0, b"GET / HTTP/1.1\r\nConnection:", b"close\r\n\r\n"),
        (Entry::ReqCfg, 0, b"GET / HTTP/1.1\r\nConnection: close", b"\r\n\r\n"),
        (Entry::RespCfg, C_SPACES_AFTER_NAME, b"HTTP/1.1 200 OK\r\nName", b": v\r\n\r\n"),
        (Entry::RespCfg, C_FOLDING, b"HTTP/1.1 200 OK\r\nF: a\r\n", b"b\r\n\r\n"),
        (Entry::ReqCfg, C_MULTI_REQ, b"GET", b"/ HTTP/1.1\r\n\r\n"),
        (Entry::RespCfg, C_MULTI_RESP, b"HTTP/1.1 200", b"OK\r\n\r\n"),
        (Entry::Chunk, 0, b"1f", b";x\r\n"),
    ]
}

pub fn add_whitespace_run_sweep(p: &mut Plan, _q: bool) {
    struct Slot {
        entry: Entry,
        cfg: u8,
        pre: &'static [u8],
        post: &'static [u8],
    }
    let slots: Vec<Slot> = vec![
        Slot { entry: Entry::ReqCfg, cfg: 0, pre: b"GET / HTTP/1.1\r\nConnection:", post: b"close\r\n\r\n" },
        Slot { entry: Entry::ReqCfg, cfg: 0, pre: b"GET / HTTP/1.1\r\nConnection: close", post: b"\r\nB: 1\r\n\r\n" },
        Slot { entry: Entry::ReqCfg, cfg: 0, pre: b"GET / HTTP/1.1\r\nA:", post: b"\r\n\r\n" },
        Slot { entry: Entry::Headers, cfg: 0, pre: b"A:", post: b"v\n\n" },
        Slot { entry: Entry::Headers, cfg: 0, pre: b"A: x", post: b"y\nB:1\n\n" },
        Slot { entry: Entry::RespCfg, cfg: 0, pre: b"HTTP/1.1 200 OK\r\nName", post: b": v\r\n\r\n" },
        Slot { entry: Entry::RespCfg, cfg: C_SPACES_AFTER_NAME, pre: b"HTTP/1.1 200 OK\r\nName", post: b": v\r\n\r\n" },
        Slot { entry: Entry::RespCfg, cfg: C_SPACES_AFTER_NAME, pre: b"HTTP/1.1 200 OK\r\nName", post: b":v\r\n\r\n" },
        Slot { entry: Entry::RespCfg, cfg: C_SPACE_BEFORE_FIRST, pre: b"HTTP/1.1 200 OK\r\n", post: b"A: b\r\n\r\n" },
        Slot { entry: Entry::ReqCfg, cfg: C_SPACE_BEFORE_FIRST | C_IGNORE_REQ, pre: b"GET / HTTP/1.1\r\n", post: b"\r\nA: b\r\n\r\n" },
        Slot { entry: Entry::RespCfg, cfg: C_FOLDING, pre: b"HTTP/1.1 200 OK\r\nF: a\r\n", post: b"b\r\n\r\n" },
        Slot { entry: Entry::RespCfg, cfg: C_FOLDING, pre: b"HTTP/1.1 200 OK\r\nF:\r\n", post: b"\r\n\r\n" },
        Slot { entry: Entry::ReqCfg, cfg: 0, pre: b"GET", post: b"/ HTTP/1.1\r\n\r\n" },
        Slot { entry: Entry::ReqCfg, cfg: C_MULTI_REQ, pre: b"GET", post: b"/ HTTP/1.1\r\n\r\n" },
        Slot { entry: Entry::ReqCfg, cfg: C_MULTI_REQ, pre: b"GET /", post: b"HTTP/1.1\r\n\r\n" },
        Slot { entry: Entry::RespCfg, cfg: 0, pre: b"HTTP/1.1", post: b"200 OK\r\n\r\n" },
        Slot { entry: Entry::RespCfg, cfg: C_MULTI_RESP, pre: b"HTTP/1.1", post: b"200 OK\r\n\r\n" },
        Slot { entry: Entry::RespCfg, cfg: C_MULTI_RESP, pre: b"HTTP/1.1 200", post: b"OK\r\n\r\n" },
        Slot { entry: Entry::RespCfg, cfg: 0, pre: b"HTTP/1.1 200", post: b"OK\r\n\r\n" },
        Slot { entry: Entry::RespCfg, cfg: 0, pre: b"HTTP/1.1 200 OK", post: b"\r\n\r\n" },
        Slot { entry: Entry::Chunk, cfg: 0, pre: b"1f", post: b";x\r\n" },
        Slot { entry: Entry::Chunk, cfg: 0, pre: b"1f", post: b"\r\n" },
        Slot { entry: Entry::ReqCfg, cfg: 0, pre: b"", post: b"GET / HTTP/1.1\r\n\r\n" },
    ];
    let n = slots.len();
    let mut tasks: Vec<TaskFn> = Vec::new();
    for sl in slots {
        tasks.push(Box::new(move |ck: &mut Checker| {
            let lane = Lane::new(sl.entry, sl.cfg, 4);
            let mut buf = Vec::new();
            for l in 0..=WS_LONG {
                for pat in 0..4 {
                    buf.clear();
                    buf.extend_from_slice(sl.pre);
                    for i in 0..l {
                        buf.push(match pat {
                            0 => b' ',
                            1 => b'\t',
                            2 => if i % 2 == 0 { b' ' } else { b'\t' },
                            _ => if i == 0 { b'\t' } else { b' ' },
                        });
                    }
                    buf.extend_from_slice(sl.post);
                    one_shot(ck, &lane, &buf);
                    // and every prefix that ends inside or right after the run
                    let end = sl.pre.len() + l;
                    // (runs longer than 40: only the cuts near the end of the run)
                    let from = if l <= 40 { sl.pre.len() } else { end - 2 };
                    for k in from..=end.min(buf.len()) {
                        one_shot(ck, &lane, &buf[..k]);
                    }
                    if ck.full() {
                        return;
                    }
                }
            }
        }));
    }
    // a run with one foreign byte inside it (block-wise blank skipping with a sloppy predicate)
    for sl in ws_foreign_slots() {
        tasks.push(Box::new(move |ck: &mut Checker| {
            let lane = Lane::new(sl.0, sl.1, 4);
            let foreign: [u8; 20] = [0x00, 0x01, 0x08, 0x0b, 0x0c, 0x1f, b'!', b'(', b')', b'"', b'0', b'@', b'A', b'`', 0x7f, 0x80, 0xa0, 0xff, b':', b'\r'];
            let mut buf = Vec::new();
            for l in 1..=24usize {
                for pat in 0..3 {
                    for pos in 0..l {
                        for &x in &foreign {
                            buf.clear();
                            buf.extend_from_slice(sl.2);
                            for i in 0..l {
                                buf.push(if i == pos { x } else { match pat { 0 => b' ', 1 => b'\t', _ => if i % 2 == 0 { b' ' } else { b'\t' } } });
                            }
                            buf.extend_from_slice(sl.3);
                            one_shot(ck, &lane, &buf);
                        }
                    }
                }
                if ck.full() {
                    return;
                }
            }
        }));
    }
    // runs of one byte value (obs-text, edge-of-class bytes) at the end of a value or reason, with
    // and without blanks behind them, under default and lenient options
    for (e, cfg, pre, post) in [
        (Entry::RespCfg, 0u8, &b"HTTP/1.1 200 OK\r\nX-Title: Resum"[..], &b"\r\nB: 1\r\n\r\n"[..]),
        (Entry::RespCfg, C_FOLDING | C_SPACES_AFTER_NAME | C_IGNORE_RESP, b"HTTP/1.1 200 OK\r\nX-Title: Resum", b"\r\nB: 1\r\n\r\n"),
        (Entry::RespCfg, C_FOLDING, b"HTTP/1.1 200 OK\r\nX: a\r\n Resum", b"\r\n\r\n"),
        (Entry::ReqCfg, 0, b"GET / HTTP/1.1\r\nX-Title: Resum", b"\n\n"),
        (Entry::Headers, 0, b"T:", b"\r\n\r\n"),
        (Entry::RespCfg, 0, b"HTTP/1.1 200 Resum", b"\r\n\r\n"),
        (Entry::RespCfg, C_MULTI_RESP, b"HTTP/1.1 200  ", b"\r\n\r\n"),
    ] {
        tasks.push(Box::new(move |ck: &mut Checker| {
            let lane = Lane::new(e, cfg, 4);
            let mut buf = Vec::new();
            for x in [0x80u8, 0xa0, 0xa1, 0xa9, 0xc3, 0xe9, 0xff, b'!', b'~', b'\t', b' ', b'a'] {
                for k in 0..=33usize {
                    for blanks in [0usize, 1, 7, 8, 9] {
                        for first in [x, 0xc3] {
                            buf.clear();
                            buf.extend_from_slice(pre);
                            for i in 0..k {
                                buf.push(if i == 0 { first } else { x });
                            }
                            buf.extend(std::iter::repeat(b' ').take(blanks));
                            buf.extend_from_slice(post);
                            one_shot(ck, &lane, &buf);
                        }
                    }
                }
                if ck.full() {
                    return;
                }
            }
        }));
    }
    // the two bytes in front of a trailing run × the run: trimming tricks that work on words see
    // the last visible bytes and the blanks together
    for (e, pre, post) in [
        (Entry::ReqCfg, &b"GET / HTTP/1.1\r\nA: deploy finished"[..], &b"\r\n\r\n"[..]),
        (Entry::Headers, b"K:v", b"\nL: 1\n\n"),
        (Entry::RespCfg, b"HTTP/1.1 200 OK\r\nA:", b"\r\n\r\n"),
    ] {
        tasks.push(Box::new(move |ck: &mut Checker| {
            let lane = Lane::new(e, 0, 4);
            let mut buf = Vec::new();
            for b1 in [b'a', b' ', b'\t', b'!'] {
                for b2 in 0..=255u8 {
                    for l in (0..=24usize).chain([31, 32, 33, 40]) {
                        for pat in 0..3 {
                            buf.clear();
                            buf.extend_from_slice(pre);
                            buf.push(b1);
                            buf.push(b2);
                            for i in 0..l {
                                buf.push(match pat {
                                    0 => b' ',
                                    1 => b'\t',
                                    _ => if i % 2 == 0 { b' ' } else { b'\t' },
                                });
                            }
                            buf.extend_from_slice(post);
                            one_shot(ck, &lane, &buf);
                        }
                    }
                    if ck.full() {
                        return;
                    }
                }
            }
        }));
    }
    p.phases.push(Phase { label: format!("S2c: whitespace runs of length 0..={} × 4 SP/HTAB patterns at {} grammar positions (full and cut inside the run); the two bytes in front of a trailing run (4 × 256) × run 0..=24,31..33,40", WS_LONG, n), backend: Backend::Native, tasks });
    p.bounds.push(format!("S2c whitespace runs: length 0..=300 (every cut inside the run up to 40, the last three cuts beyond), patterns SP* / HTAB* / alternating / HTAB SP*, at {} positions (after the colon, before the line end, before the colon, before the first header, inside folds, request- and status-line delimiters, chunk size, message start), complete and cut inside the run", n));
}

/// Repetition counts: k = 0..=24 repetitions of a unit at the places where the grammars allow a
/// unit to repeat (leading empty lines, fold continuation lines, ignored lines, header lines of one
/// shape between two others), complete and cut after every repetition.
const REP_LONG: [usize; 17] = [31, 32, 33, 47, 63, 64, 65, 66, 100, 127, 128, 129, 130, 255, 256, 257, 300];

pub fn add_repetition_sweep(p: &mut Plan, _q: bool) {
    struct Rep {
        entry: Entry,
        cfg: u8,
        pre: &'static [u8],
        unit: &'static [u8],
        post: &'static [u8],
    }
    let reps: Vec<Rep> = vec![
        Rep { entry: Entry::ReqCfg, cfg: 0, pre: b"", unit: b"\r\n", post: b"GET / HTTP/1.1\r\nA: b\r\n\r\n" },
        Rep { entry: Entry::ReqCfg, cfg: 0, pre: b"", unit: b"\n", post: b"GET / HTTP/1.1\n\n" },
        Rep { entry: Entry::ReqCfg, cfg: 0, pre: b"", unit: b"\n\r\n", post: b"PUT /x HTTP/1.0\r\n\r\n" },
        Rep { entry: Entry::RespCfg, cfg: 0, pre: b"", unit: b"\r\n", post: b"HTTP/1.1 200 OK\r\nA: b\r\n\r\n" },
        Rep { entry: Entry::RespCfg, cfg: 0, pre: b"\n", unit: b"\r\n\n", post: b"HTTP/1.0 204\n\n" },
        Rep { entry: Entry::RespCfg, cfg: C_FOLDING, pre: b"HTTP/1.1 200 OK\r\nF: a", unit: b"\r\n b", post: b"\r\nG: 1\r\n\r\n" },
        Rep { entry: Entry::RespCfg, cfg: C_FOLDING, pre: b"HTTP/1.1 200 OK\r\nF: a", unit: b"\n\tb ", post: b"\n\n" },
        Rep { entry: Entry::RespCfg, cfg: C_FOLDING, pre: b"HTTP/1.1 200 OK\r\nF: a", unit: b"\r\n ", post: b"\r\n\r\n" },
        Rep { entry: Entry::RespCfg, cfg: C_FOLDING, pre: b"HTTP/1.1 200 OK\r\nF:", unit: b"\r\n\t", post: b"\r\n x\r\n\r\n" },
        Rep { entry: Entry::RespCfg, cfg: C_FOLDING | C_IGNORE_RESP, pre: b"HTTP/1.1 200 OK\r\nF: a", unit: b"\r\n b", post: b"\x01\r\nG: 1\r\n\r\n" },
        Rep { entry: Entry::RespCfg, cfg: C_IGNORE_RESP, pre: b"HTTP/1.1 200 OK\r\nA: 1\r\n", unit: b"bad line\r\n", post: b"B: 2\r\n\r\n" },
        Rep { entry: Entry::ReqCfg, cfg: C_IGNORE_REQ, pre: b"GET / HTTP/1.1\r\n", unit: b": x\n", post: b"B: 2\n\n" },
        Rep { entry: Entry::ReqCfg, cfg: C_IGNORE_REQ | C_SPACE_BEFORE_FIRST, pre: b"GET / HTTP/1.1\r\n", unit: b" (\r\n", post: b" B: 2\r\n\r\n" },
        Rep { entry: Entry::Headers, cfg: 0, pre: b"First: 1\r\n", unit: b"M: mid\r\n", post: b"Last: 9\r\n\r\n" },
        Rep { entry: Entry::ReqCfg, cfg: 0, pre: b"GET / HTTP/1.1\r\n", unit: b"E:\r\n", post: b"Last: 9\r\n\r\n" },
        Rep { entry: Entry::Chunk, cfg: 0, pre: b"a", unit: b";x", post: b"\r\n" },
    ];
    let n = reps.len();
    let mut tasks: Vec<TaskFn> = Vec::new();
    for r in reps {
        tasks.push(Box::new(move |ck: &mut Checker| {
            let lane = Lane::new(r.entry, r.cfg, 320);
            let mut buf = Vec::new();
            for k in (0..=24usize).chain(REP_LONG.iter().copied()) {
                buf.clear();
                buf.extend_from_slice(r.pre);
                for _ in 0..k {
                    buf.extend_from_slice(r.unit);
                }
                let cut = buf.len();
                buf.extend_from_slice(r.post);
                one_shot(ck, &lane, &buf);
                one_shot(ck, &lane, &buf[..cut]);
                // cut inside the last repetition
                for back in 1..r.unit.len().min(cut + 1) {
                    one_shot(ck, &lane, &buf[..cut - back]);
                }
                if ck.full() {
                    return;
                }
            }
        }));
    }
    p.phases.push(Phase { label: format!("S2c: 0..=24 and 31..300 (17 counts around powers of two) repetitions of a unit at {} places where the grammars repeat (empty lines, folds, ignored lines, header lines), complete and cut", n), backend: Backend::Native, tasks });
    p.bounds.push(format!("S2c repetitions: k = 0..=24 and k in {{31,32,33,47,63..66,100,127..130,255..257,300}} at {} places (leading empty lines in CRLF / LF / mixed form, fold continuation lines with and without content, ignored lines, repeated header lines, chunk extensions), complete, cut after the k-th repetition and cut inside it", n));
}

/// UTF-8 in the request target: every sequence of <= 4 bytes over a boundary alphabet of UTF-8
/// lead / continuation / ASCII bytes, after ASCII prefixes of several lengths (so that the
/// sequence straddles 8/16/32-byte block boundaries) and before 0..2 more target bytes.
pub fn add_utf8_sweep(p: &mut Plan, q: bool, backends: &[Backend]) {
    let sigma: Vec<u8> = vec![0x7e, 0x80, 0x8f, 0x90, 0x9f, 0xa0, 0xbf, 0xc0, 0xc1, 0xc2, 0xdf, 0xe0, 0xe1, 0xec, 0xed, 0xee, 0xef, 0xf0, 0xf1, 0xf3, 0xf4, 0xf5, 0xff];
    let prefixes: Vec<usize> = if q { vec![0, 5, 13, 29, 31, 61, 125, 127, 253] } else { vec![0, 1, 5, 6, 7, 13, 14, 15, 28, 29, 30, 31, 32, 61, 62, 63, 93, 125, 126, 127, 128, 253, 254, 255] };
    for &b in backends {
        let mut tasks: Vec<TaskFn> = Vec::new();
        for &k in &prefixes {
            for first in 0..sigma.len() {
                let sigma = sigma.clone();
                tasks.push(Box::new(move |ck: &mut Checker| {
                    let lane = Lane { backend: b, ..Lane::new(Entry::ReqCfg, 0, 2) };
                    let n = sigma.len();
                    let mut buf = Vec::new();
                    for len in 1..=4usize {
                        let mut idx = vec![0usize; len];
                        idx[0] = first;
                        'outer: loop {
                            for tail in [&b""[..], b"a", b"\x80"] {
                                buf.clear();
                                buf.extend_from_slice(b"GET /");
                                buf.extend(std::iter::repeat(b'x').take(k));
                                for &i in &idx {
                                    buf.push(sigma[i]);
                                }
                                buf.extend_from_slice(tail);
                                buf.extend_from_slice(b" HTTP/1.1\r\n\r\n");
                                one_shot(ck, &lane, &buf);
                            }
                            let mut j = len;
                            loop {
                                if j == 1 {
                                    break 'outer;
                                }
                                j -= 1;
                                idx[j] += 1;
                                if idx[j] < n {
                                    break;
                                }
                                idx[j] = 0;
                            }
                            if ck.full() {
                                return;
                            }
                        }
                    }
                }));
            }
        }
        p.phases.push(Phase { label: format!("S2c: UTF-8 boundary alphabet Σ_u({})^≤4 in the target after ASCII prefixes {:?}, 3 tails", sigma.len(), prefixes), backend: b, tasks });
    }
    p.bounds.push(format!("S2c UTF-8: all sequences of 1..=4 bytes over {} boundary bytes (7E 80 8F 90 9F A0 BF C0 C1 C2 DF E0 E1 EC ED EE EF F0 F1 F3 F4 F5 FF) in the request target after ASCII prefixes of lengths {:?}, followed by nothing / 'a' / 0x80", sigma.len(), prefixes));
}

const TAIL_LENS: [usize; 11] = [1, 7, 8, 15, 16, 31, 32, 33, 63, 64, 65];

/// `buf` (already evaluated: observation `po`, model `m`) followed by 1..65 more bytes.
fn append_tails(ck: &mut Checker, lane: &Lane, buf: &mut Vec<u8>, m: &Model, po: &Obs) {
    let n = buf.len();
    for (i, &t) in TAIL_LENS.iter().enumerate() {
        let fill = [b'x', b'\t', b' '][i % 3];
        buf.truncate(n);
        buf.extend(std::iter::repeat(fill).take(t));
        let mut mm = *m;
        mm.feed(&buf[n..]);
        ck.eval(lane, buf, Some(&mm), Some((po, n)));
        if ck.full() {
            break;
        }
    }
    buf.truncate(n);
}

/// Every prefix of long single-field messages: run length L, one offending byte of a small set at
/// every position (block scanners and look-ahead fast paths see different amounts of data at
/// every split point).
pub fn add_field_prefix_sweep(p: &mut Plan, q: bool, backends: &[Backend]) {
    let lmax = if q { 72 } else { 100 };
    let step = if q { 3 } else { 1 };
    for &b in backends {
        let mut tasks: Vec<TaskFn> = Vec::new();
        for f in FIELDS.iter() {
            for band in 0..4usize {
                let f = *f;
                tasks.push(Box::new(move |ck: &mut Checker| {
                    let lane = Lane { backend: b, ..Lane::new(f.entry, f.cfg, 2) };
                    let bad: [u8; 6] = [f.fill, 0x7f, 0x00, b' ', b'\t', b'\r'];
                    let mut buf = Vec::new();
                    for l in (0..=lmax).filter(|l| l % 4 == band) {
                        for pos in (0..l.max(1)).step_by(step) {
                            for &v in &bad {
                                buf.clear();
                                buf.extend_from_slice(f.pre);
                                buf.extend(std::iter::repeat(f.fill).take(l));
                                buf.extend_from_slice(f.post);
                                if pos < l {
                                    buf[f.pre.len() + pos] = v;
                                }
                                // walk the prefix chain from the start of the field
                                let mut m = Model::for_entry(lane.entry, lane.cfg, lane.cap);
                                m.feed(&buf[..f.pre.len()]);
                                let mut parent: Option<(Obs, usize)> = None;
                                for k in f.pre.len()..=buf.len() {
                                    if k > f.pre.len() {
                                        m.step(buf[k - 1]);
                                    }
                                    let (o, ok) = ck.eval(&lane, &buf[..k], Some(&m), parent.as_ref().map(|(o, l)| (o, *l)));
                                    if !ok || ck.full() {
                                        break;
                                    }
                                    parent = Some((o, k));
                                }
                                // and the full message followed by more data of several lengths:
                                // block scanners and look-ahead fast paths see more bytes
                                if let Some((po, pk)) = parent {
                                    if pk == buf.len() {
                                        append_tails(ck, &lane, &mut buf, &m, &po);
                                    }
                                }
                                if ck.full() {
                                    return;
                                }
                            }
                        }
                    }
                }));
            }
        }
        p.phases.push(Phase { label: format!("S2b: every prefix of 11 single-field messages, L≤{} × position(step {}) × 6 bytes", lmax, step), backend: b, tasks });
    }
    p.bounds.push(format!("S2b prefixes: 11 fields × run length 0..={} × offending position (step {}) × bytes {{filler, 7F, 00, SP, HTAB, CR}} × every split point inside and after the field, backends {:?}", lmax, step, backends.iter().map(|b| b.name()).collect::<Vec<_>>()));
}


// --------------------------------------------------------------------------------------------
// S2(b'): long fields — run lengths well beyond any vector stride (128-byte unrolled loops, 64-byte
// masks), with and without a long remainder of the buffer behind the field.
// --------------------------------------------------------------------------------------------

const LONG_PLACES: [Place; 7] = [
    Place::EndFlush,
    Place::Mid(crate::arena::PAGE - 1),
    Place::StartFlush,
    Place::Mid(crate::arena::PAGE - 17),
    Place::EndFlush,
    Place::Mid(crate::arena::PAGE - 40),
    Place::Mid(crate::arena::PAGE - 100),
];
const LONG_VALS: [u8; 13] = [0x00, 0x09, 0x0a, 0x0d, 0x1f, 0x20, 0x21, b':', 0x7e, 0x7f, 0x80, 0xff, b'B'];
const LONG_VALS_T: [u8; 32] = [
    0x00, 0x01, 0x08, 0x09, 0x0a, 0x0b, 0x0c, 0x0d, 0x0e, 0x1f, 0x20, 0x21, b'"', b'(', b',', b'/', b'0', b':', b';', b'@', b'B', b'[', b'z', b'{', 0x7e, 0x7f, 0x80, 0x9f, 0xa0, 0xc3, 0xf4, 0xff,
];

fn long_posts(f: &Field) -> Vec<Vec<u8>> {
    let longv: Vec<u8> = {
        let mut v = b"Host: example.com\r\nAccept: */*\r\n\r\n".to_vec();
        v.extend(std::iter::repeat(b'b').take(170));
        v.extend_from_slice(b"\r\n\r\n");
        v
    };
    let badv: Vec<u8> = {
        let mut v = b"\x01oops: 1\r\nK: v\r\n\r\n".to_vec();
        v.extend(std::iter::repeat(b'b').take(170));
        v
    };
    let mut out = vec![f.post.to_vec()];
    if f.entry == Entry::Chunk {
        let mut a = f.post.to_vec();
        a.extend_from_slice(&longv);
        out.push(a);
        return out;
    }
    // the post without its head-terminating empty line
    let stem: &[u8] = if f.post.ends_with(b"\r\n\r\n") {
        &f.post[..f.post.len() - 2]
    } else if f.post.ends_with(b"\n\n") {
        &f.post[..f.post.len() - 1]
    } else {
        f.post
    };
    // a NUL in a later VALUE: whatever the parser did with an earlier offending byte, the kind of
    // error it ends with must still be that of the first one
    let nulv: Vec<u8> = {
        let mut v = b"Good: y\r\nK: v\x00w\r\n\r\n".to_vec();
        v.extend(std::iter::repeat(b'b').take(100));
        v
    };
    for v in [&longv, &badv, &nulv] {
        let mut a = stem.to_vec();
        a.extend_from_slice(v);
        out.push(a);
    }
    out
}

/// One offending byte of a boundary set at every position of a field of every length up to 300
/// (520), in front of three remainders: the minimal one, 200 more bytes of valid header lines and
/// body, 200 more bytes that start with an invalid line. Evaluated complete, cut right after the
/// field, and (when a streaming oracle is armed) along a chain of cuts around the 128/256-byte
/// marks behind the start of the field and behind the offending byte.
pub fn add_long_fields(p: &mut Plan, q: bool, backends: &[Backend], names: &[&str]) {
    let lmax: usize = if q { 300 } else { 520 };
    let fields: Vec<Field> = FIELDS.iter().filter(|f| f.name != "chunk-digits" && (names.is_empty() || names.contains(&f.name))).cloned().collect();
    for &b in backends {
        let mut tasks: Vec<TaskFn> = Vec::new();
        for f in fields.iter() {
            for (pi, post) in long_posts(f).into_iter().enumerate() {
                for band in 0..8usize {
                    let f = *f;
                    let post = post.clone();
                    tasks.push(Box::new(move |ck: &mut Checker| {
                        let lane = Lane { backend: b, ..Lane::new(f.entry, f.cfg, 8) };
                        let chain = ck.armed & (crate::oracle::O_STREAM | crate::oracle::O_PARTIAL) != 0;
                        // (the chains of cuts cost ~20 evaluations per input: fewer offending values)
                        let vals: &[u8] = match (q, chain) {
                            (true, false) => &LONG_VALS,
                            (false, false) => &LONG_VALS_T,
                            (true, true) => &[0x00, 0x0d, b' ', 0x7f],
                            (false, true) => &[0x00, 0x09, 0x0a, 0x0d, b' ', b':', 0x7f, 0xff],
                        };
                        let lo = if pi == 0 { 71 } else { 0 };
                        let fs = f.pre.len();
                        let mut buf: Vec<u8> = Vec::new();
                        let mut base = Model::for_entry(lane.entry, lane.cfg, lane.cap);
                        base.feed(f.pre);
                        for l in (lo..=lmax).filter(|l| l % 8 == band) {
                            // the placement rotates with the length: flush against the guard pages,
                            // and with a page boundary 1 / 17 / 40 / 100 bytes into the data (fast
                            // paths that look at the address, not the content)
                            let lane = Lane { place: LONG_PLACES[(l / 8) % LONG_PLACES.len()], ..lane };
                            buf.clear();
                            buf.extend_from_slice(f.pre);
                            buf.extend(std::iter::repeat(f.fill).take(l));
                            buf.extend_from_slice(&post);
                            let mut at_pos = base; // model after pre + fill^pos
                            for pos in 0..=l {
                                // pos == l: no offender
                                let vs: &[u8] = if pos == l { &[0u8][..] } else { vals };
                                for &v in vs {
                                    if pos < l {
                                        if v == f.fill {
                                            continue;
                                        }
                                        buf[fs + pos] = v;
                                    }
                                    if !chain {
                                        // the complete message first, then the same bytes cut right
                                        // after the field: the next input (same address, one byte
                                        // different) follows a Partial inside a long field — state
                                        // kept between calls and keyed by the address shows up
                                        let mut m = at_pos;
                                        m.feed(&buf[fs + pos..fs + l]);
                                        let mcut = m;
                                        m.feed(&buf[fs + l..]);
                                        ck.eval(&lane, &buf, Some(&m), None);
                                        ck.eval(&lane, &buf[..fs + l], Some(&mcut), None);
                                    } else {
                                        let mut cuts: Vec<usize> = Vec::with_capacity(40);
                                        let start = if pos < l { fs + pos + 1 } else { fs + l };
                                        let near: &[usize] = if q { &[0, 1, 8, 16, 32, 64, 128, 129] } else { &[0, 1, 7, 8, 15, 16, 31, 32, 33, 63, 64, 65, 127, 128, 129] };
                                        for &d in near {
                                            cuts.push(start + d);
                                        }
                                        for d in [127usize, 128, 129, 255, 256, 257] {
                                            cuts.push(fs + d);
                                            if !q {
                                                cuts.push(fs + 1 + d);
                                            }
                                        }
                                        cuts.push(fs + l);
                                        cuts.push(fs + l + 1);
                                        cuts.push(buf.len() - 1);
                                        cuts.push(buf.len());
                                        cuts.retain(|&c| c >= start && c <= buf.len());
                                        cuts.sort();
                                        cuts.dedup();
                                        let mut m = at_pos;
                                        let mut fed = fs + pos;
                                        let mut parent: Option<(Obs, usize)> = None;
                                        for &c in &cuts {
                                            m.feed(&buf[fed..c]);
                                            fed = c;
                                            let (o, ok) = ck.eval(&lane, &buf[..c], Some(&m), parent.as_ref().map(|(o, k)| (o, *k)));
                                            if !ok {
                                                break;
                                            }
                                            parent = Some((o, c));
                                        }
                                    }
                                    if ck.full() {
                                        return;
                                    }
                                }
                                if pos < l {
                                    buf[fs + pos] = f.fill;
                                    at_pos.step(f.fill);
                                }
                            }
                            // two cooperating bytes a vector lane (or several) apart: an in-class
                            // edge byte x and an out-of-class byte y at distance d, both orders
                            if !chain && (l == 130 || l == 200 || l == 300) {
                                let xs: [u8; 5] = [0x09, 0x20, 0x21, 0x80, 0xff];
                                let ys: [u8; 5] = [0x00, 0x0a, 0x0d, 0x1f, 0x7f];
                                for p1 in 0..l {
                                    for d in [8usize, 16, 32, 64, 96, 128] {
                                        let p2 = p1 + d;
                                        if p2 >= l {
                                            break;
                                        }
                                        for &x in &xs {
                                            for &y in &ys {
                                                for swap in [false, true] {
                                                    let (a, b) = if swap { (y, x) } else { (x, y) };
                                                    buf[fs + p1] = a;
                                                    buf[fs + p2] = b;
                                                    let mut m = base;
                                                    m.feed(&buf[fs..]);
                                                    ck.eval(&lane, &buf, Some(&m), None);
                                                }
                                            }
                                        }
                                        buf[fs + p2] = f.fill;
                                        if ck.full() {
                                            return;
                                        }
                                    }
                                    buf[fs + p1] = f.fill;
                                }
                            }
                        }
                    }));
                }
            }
        }
        p.phases.push(Phase { label: format!("S2b': long fields, {} fields × 4 remainders × L≤{} × position × {} boundary bytes", fields.len(), lmax, if q { 13 } else { 32 }), backend: b, tasks });
    }
    p.bounds.push(format!(
        "S2b' long fields: {:?}, run length 71..={lmax} before the minimal remainder and 0..={lmax} before three longer remainders (valid header lines + body; an invalid line first; a NUL in a later value), one byte of a {}-value boundary set at every position (and none), complete and cut after the field{}, placement rotating with the length (guard-flush at either end; a page boundary 1 / 17 / 40 / 100 bytes into the data), backends {:?}",
        fields.iter().map(|f| f.name).collect::<Vec<_>>(),
        if q { 13 } else { 32 },
        " (when a streaming oracle is armed: 4 (8) offending values and a chain of 18 (35) cuts around +128/+256 behind the field start and behind the offender; otherwise also, at lengths 130/200/300, an in-class edge byte {09,20,21,FF} and an out-of-class byte {00,0A,0D,1F,7F} at distance 8/16/32/64/96/128, both orders, every position)",
        backends.iter().map(|b| b.name()).collect::<Vec<_>>()
    ));
}


// --------------------------------------------------------------------------------------------
// S2(d): relations between two fields, and real-world tokens
// --------------------------------------------------------------------------------------------

const METHODS: [&[u8]; 30] = [
    b"GET", b"POST", b"PUT", b"HEAD", b"DELETE", b"OPTIONS", b"PATCH", b"CONNECT", b"TRACE", b"GE", b"GETT", b"POS", b"POSTS", b"get", b"PoST", b"M-SEARCH",
    b"PRI", b"PROPFIND", b"PROPPATCH", b"MKCOL", b"COPY", b"MOVE", b"LOCK", b"UNLOCK", b"REPORT", b"SOURCE", b"PURGE", b"DESCRIBE", b"INVITE", b"SUBSCRIBE",
];
const TARGETS: [&[u8]; 10] = [b"/", b"*", b"http://example.com/a/b", b"/a?b=c&d=e#f", b"/%41%zz", b"/caf\xc3\xa9", b"example.com:443", b"/\xe2\x82\xac/\xf0\x9f\x98\x80", b"/index.html", b"rtsp://h/s"];
const VERSIONS: [&[u8]; 12] = [b"HTTP/1.1", b"HTTP/1.0", b"HTTP/1.2", b"HTTP/2.0", b"HTTP/2", b"HTTP/0.9", b"http/1.1", b"HTTP/1.10", b"HTTPS/1.1", b"RTSP/1.0", b"SIP/2.0", b"ICY"];
const HNAMES: [&[u8]; 16] = [b"Host", b"Content-Length", b"Transfer-Encoding", b"Connection", b"Cookie", b"Set-Cookie", b"Expect", b"Upgrade", b"TE", b"content-length", b"HOST", b"X", b"Content-Type", b"User-Agent", b"Accept", b"Date"];
const HVALUES: [&[u8]; 14] = [b"", b"0", b"5", b"chunked", b"close", b"keep-alive", b"a=b; c=d", b"100-continue", b"gzip, deflate", b"caf\xe9 \xff", b"text/html; charset=utf-8", b"*/*", b"example.com", b"Sun, 06 Nov 1994 08:49:37 GMT"];
/// The registered status codes with their standard reason phrases, and a few codes outside them.
const STATUS: [(&[u8], &[u8]); 44] = [
    (b"100", b"Continue"), (b"101", b"Switching Protocols"), (b"102", b"Processing"), (b"103", b"Early Hints"),
    (b"200", b"OK"), (b"201", b"Created"), (b"202", b"Accepted"), (b"204", b"No Content"), (b"206", b"Partial Content"),
    (b"300", b"Multiple Choices"), (b"301", b"Moved Permanently"), (b"302", b"Found"), (b"303", b"See Other"), (b"304", b"Not Modified"), (b"307", b"Temporary Redirect"), (b"308", b"Permanent Redirect"),
    (b"400", b"Bad Request"), (b"401", b"Unauthorized"), (b"403", b"Forbidden"), (b"404", b"Not Found"), (b"405", b"Method Not Allowed"), (b"408", b"Request Timeout"), (b"409", b"Conflict"), (b"410", b"Gone"),
    (b"411", b"Length Required"), (b"413", b"Payload Too Large"), (b"414", b"URI Too Long"), (b"417", b"Expectation Failed"), (b"418", b"I'm a teapot"), (b"426", b"Upgrade Required"), (b"429", b"Too Many Requests"), (b"431", b"Request Header Fields Too Large"),
    (b"500", b"Internal Server Error"), (b"501", b"Not Implemented"), (b"502", b"Bad Gateway"), (b"503", b"Service Unavailable"), (b"504", b"Gateway Timeout"), (b"505", b"HTTP Version Not Supported"),
    (b"599", b"x"), (b"600", b"y"), (b"999", b"z"), (b"000", b"zero"), (b"099", b"low"), (b"1000", b"four digits"),
];
const CODES: [&[u8]; 12] = [b"100", b"101", b"200", b"204", b"206", b"304", b"404", b"500", b"599", b"600", b"999", b"000"];
const REASONS: [&[u8]; 9] = [b"", b"OK", b"Not Found", b" leading", b"\ttab", b"caf\xc3\xa9", b"x\xff", b"Switching Protocols", b"a  b"];

/// Which parts a property wants: request line, status line, header block.
pub fn add_token_grids(p: &mut Plan, _q: bool, req: bool, resp: bool, hdr: bool) {
    let mut tasks: Vec<TaskFn> = Vec::new();
    if req {
        // method length × target length (fast paths keyed on the first four bytes, block scanners
        // starting at every phase), both multi-space settings, complete and cut after the version
        tasks.push(Box::new(|ck: &mut Checker| {
            for cfg in [0u8, C_MULTI_REQ] {
                let lane = Lane::new(Entry::ReqCfg, cfg, 2);
                let mut buf = Vec::new();
                for m in 1..=24usize {
                    for t in 1..=40usize {
                        for (mf, tf) in [(b'M', b'/'), (b'G', b'a'), (b'P', 0xc3u8)] {
                            for tail in [&b" HTTP/1.1\r\n\r\n"[..], b" HTTP/1.0\n\n", b" HTTP/1.1"] {
                                buf.clear();
                                buf.extend(std::iter::repeat(mf).take(m));
                                buf.push(b' ');
                                buf.extend(std::iter::repeat(tf).take(t));
                                buf.extend_from_slice(tail);
                                one_shot(ck, &lane, &buf);
                            }
                        }
                    }
                    if ck.full() {
                        return;
                    }
                }
                // every real method with each of its bytes replaced by every value (fast paths that
                // recognise a method by some of its bytes), in front of two targets
                for m in METHODS {
                    for t in [&b"/x"[..], b"*"] {
                        let mut line = m.to_vec();
                        line.push(b' ');
                        line.extend_from_slice(t);
                        line.extend_from_slice(b" HTTP/1.1\r\nHost: h\r\n\r\n");
                        for pos in 0..=m.len() {
                            let orig = line[pos];
                            for v in 0..=255u8 {
                                line[pos] = v;
                                one_shot(ck, &lane, &line);
                            }
                            line[pos] = orig;
                        }
                    }
                    if ck.full() {
                        return;
                    }
                }
                // real methods × real targets × versions × line ends
                for m in METHODS {
                    for t in TARGETS {
                        for v in VERSIONS {
                            for sep in [&b" "[..], b"  ", b"\t"] {
                                for eol in [&b"\r\n\r\n"[..], b"\n\n", b"\r\nHost: x\r\n\r\n", b"\r\n", b"\r\n\r\nSM\r\n\r\n"] {
                                    buf.clear();
                                    buf.extend_from_slice(m);
                                    buf.extend_from_slice(sep);
                                    buf.extend_from_slice(t);
                                    buf.extend_from_slice(sep);
                                    buf.extend_from_slice(v);
                                    buf.extend_from_slice(eol);
                                    one_shot(ck, &lane, &buf);
                                }
                            }
                        }
                    }
                }
            }
        }));
    }
    if resp {
        tasks.push(Box::new(|ck: &mut Checker| {
            for cfg in [0u8, C_MULTI_RESP] {
                let lane = Lane::new(Entry::RespCfg, cfg, 2);
                let mut buf = Vec::new();
                // code value × reason content × reason length
                for code in CODES {
                    for r in REASONS {
                        for pad in 0..=40usize {
                            for v in [&b"HTTP/1.1"[..], b"HTTP/1.0"] {
                                for eol in [&b"\r\n\r\n"[..], b"\n\n", b"\r\nA: b\r\n\r\n", b""] {
                                    buf.clear();
                                    buf.extend_from_slice(v);
                                    buf.push(b' ');
                                    buf.extend_from_slice(code);
                                    buf.push(b' ');
                                    buf.extend_from_slice(r);
                                    buf.extend(std::iter::repeat(b'r').take(pad));
                                    buf.extend_from_slice(eol);
                                    one_shot(ck, &lane, &buf);
                                }
                            }
                        }
                        // no reason at all
                        for eol in [&b"\r\n\r\n"[..], b"\n\n", b" \r\n\r\n"] {
                            buf.clear();
                            buf.extend_from_slice(b"HTTP/1.1 ");
                            buf.extend_from_slice(code);
                            buf.extend_from_slice(eol);
                            one_shot(ck, &lane, &buf);
                        }
                    }
                    if ck.full() {
                        return;
                    }
                }
                // every byte of every registered status line replaced by every value
                for (code, phrase) in STATUS {
                    for v in [&b"HTTP/1.1"[..], b"HTTP/1.0"] {
                        let mut line = v.to_vec();
                        line.push(b' ');
                        line.extend_from_slice(code);
                        line.push(b' ');
                        line.extend_from_slice(phrase);
                        let n = line.len();
                        line.extend_from_slice(b"\r\n\r\n");
                        for pos in 0..n {
                            let orig = line[pos];
                            for x in 0..=255u8 {
                                line[pos] = x;
                                one_shot(ck, &lane, &line);
                            }
                            line[pos] = orig;
                        }
                    }
                    if ck.full() {
                        return;
                    }
                }
                // every registered code with its standard phrase, under every protocol token
                for (code, phrase) in STATUS {
                    for v in VERSIONS {
                        for sep in [&b" "[..], b"  "] {
                            for eol in [&b"\r\n\r\n"[..], b"\n\n", b"\r\nServer: x\r\n\r\n", b"\r\n"] {
                                for with_phrase in [true, false] {
                                    buf.clear();
                                    buf.extend_from_slice(v);
                                    buf.extend_from_slice(sep);
                                    buf.extend_from_slice(code);
                                    if with_phrase {
                                        buf.extend_from_slice(sep);
                                        buf.extend_from_slice(phrase);
                                    }
                                    buf.extend_from_slice(eol);
                                    one_shot(ck, &lane, &buf);
                                }
                            }
                        }
                    }
                }
            }
        }));
    }
    if hdr {
        // name length × value length, and real header names × real values in pairs of lines
        for (e, cfgs, start) in [
            (Entry::ReqCfg, vec![0u8, C_IGNORE_REQ, C_IGNORE_REQ | C_SPACE_BEFORE_FIRST], &b"GET / HTTP/1.1\r\n"[..]),
            (Entry::RespCfg, vec![0u8, C_IGNORE_RESP, C_FOLDING | C_SPACES_AFTER_NAME, C_IGNORE_RESP | C_FOLDING, C_IGNORE_RESP | C_SPACE_BEFORE_FIRST | C_FOLDING | C_SPACES_AFTER_NAME], &b"HTTP/1.1 200 OK\r\n"[..]),
            (Entry::Headers, vec![0u8], &b""[..]),
        ] {
            tasks.push(Box::new(move |ck: &mut Checker| {
                let mut buf = Vec::new();
                for &cfg in &cfgs {
                    let lane = Lane::new(e, cfg, 4);
                    for n in 1..=40usize {
                        for v in 0..=40usize {
                            for (ows, eol) in [(&b": "[..], &b"\r\n"[..]), (b":", b"\n"), (b":\t ", b" \r\n")] {
                                for vf in [b'v', 0xffu8] {
                                    buf.clear();
                                    buf.extend_from_slice(start);
                                    buf.extend(std::iter::repeat(b'n').take(n));
                                    buf.extend_from_slice(ows);
                                    buf.extend(std::iter::repeat(vf).take(v));
                                    buf.extend_from_slice(eol);
                                    buf.extend_from_slice(eol);
                                    one_shot(ck, &lane, &buf);
                                }
                            }
                        }
                        if ck.full() {
                            return;
                        }
                    }
                    // every real header name in every line shape around the colon
                    for n1 in HNAMES {
                        for shape in 0..10usize {
                            for eol in [&b"\r\n"[..], b"\n"] {
                                buf.clear();
                                buf.extend_from_slice(start);
                                let (a, b): (&[u8], &[u8]) = match shape {
                                    0 => (b"", b": v"),
                                    1 => (b"", b" : v"),
                                    2 => (b"", b"\t:v"),
                                    3 => (b"", b" v"),
                                    4 => (b"", b""),
                                    5 => (b"", b":"),
                                    6 => (b"", b":: v"),
                                    7 => (b" ", b": v"),
                                    8 => (b"", b"  \t : 5"),
                                    _ => (b"\t", b" :"),
                                };
                                buf.extend_from_slice(a);
                                buf.extend_from_slice(n1);
                                buf.extend_from_slice(b);
                                buf.extend_from_slice(eol);
                                buf.extend_from_slice(b"Z: 1");
                                buf.extend_from_slice(eol);
                                buf.extend_from_slice(eol);
                                one_shot(ck, &lane, &buf);
                            }
                        }
                    }
                    // every byte of every real header line replaced by every value
                    for n1 in HNAMES {
                        for v1 in HVALUES {
                            let mut line = start.to_vec();
                            let from = line.len();
                            line.extend_from_slice(n1);
                            line.extend_from_slice(b": ");
                            line.extend_from_slice(v1);
                            let to = line.len();
                            line.extend_from_slice(b"\r\n\r\n");
                            for pos in from..to {
                                let orig = line[pos];
                                for x in [0u8, 9, 10, 13, 0x1f, 0x20, 0x21, b':', 0x7f, 0x80, 0xff, orig ^ 0x20] {
                                    line[pos] = x;
                                    one_shot(ck, &lane, &line);
                                }
                                line[pos] = orig;
                            }
                        }
                    }
                    for n1 in HNAMES {
                        for v1 in HVALUES {
                            for n2 in HNAMES {
                                for v2 in HVALUES {
                                    for eol in [&b"\r\n"[..], b"\n"] {
                                        buf.clear();
                                        buf.extend_from_slice(start);
                                        for (n, v) in [(n1, v1), (n2, v2)] {
                                            buf.extend_from_slice(n);
                                            buf.extend_from_slice(b": ");
                                            buf.extend_from_slice(v);
                                            buf.extend_from_slice(eol);
                                        }
                                        buf.extend_from_slice(eol);
                                        one_shot(ck, &lane, &buf);
                                    }
                                }
                            }
                        }
                        if ck.full() {
                            return;
                        }
                    }
                }
            }));
        }
    }
    p.phases.push(Phase { label: format!("S2d: two-field grids and real-world tokens (request line: {}, status line: {}, header block: {})", req, resp, hdr), backend: Backend::Native, tasks });
    p.bounds.push("S2d: every byte of 30 real methods / 88 registered status lines × 256 values, of 224 real header lines × 12 values; method length 1..=24 × target length 1..=40 × 3 fillers × 3 tails; 30 methods × 10 targets × 12 protocol tokens × 3 separators × 5 line ends; 12 codes × 9 reason shapes × padding 0..=40 × 2 versions × 4 line ends; 44 (code, standard phrase) pairs × 12 protocol tokens × 2 separators × 4 line ends × with/without phrase; header name length 1..=40 × value length 0..=40 × 3 OWS/EOL shapes × 2 fillers; all pairs of (16 names × 14 values) header lines × 2 line ends — each under 1–3 option sets".into());
}


/// Long fields in front of 20 KiB of further buffer (loops that are only entered when kilobytes are
/// still to come): lengths 130 / 200 / 260 / 300, one byte of four values at every position.
pub fn add_long_fields_huge_remainder(p: &mut Plan, _q: bool, backends: &[Backend], names: &[&str]) {
    let fields: Vec<Field> = FIELDS.iter().filter(|f| f.name != "chunk-digits" && f.name != "chunk-ext" && (names.is_empty() || names.contains(&f.name))).cloned().collect();
    for &b in backends {
        let mut tasks: Vec<TaskFn> = Vec::new();
        for f in fields.iter() {
            for l in [130usize, 200, 260, 300] {
                let f = *f;
                tasks.push(Box::new(move |ck: &mut Checker| {
                    let lane = Lane { backend: b, ..Lane::new(f.entry, f.cfg, 8) };
                    let mut buf: Vec<u8> = Vec::with_capacity(22000);
                    buf.extend_from_slice(f.pre);
                    buf.extend(std::iter::repeat(f.fill).take(l));
                    buf.extend_from_slice(f.post);
                    let head = buf.len();
                    buf.extend(std::iter::repeat(b'b').take(20 * 1024));
                    let fs = f.pre.len();
                    for pos in 0..=l {
                        for v in [0x00u8, 0x09, 0x0a, 0x7f] {
                            if pos < l {
                                buf[fs + pos] = v;
                            }
                            // (the reference machine is absorbing once the head is decided: the body
                            // need not be fed to it)
                            let mut m = Model::for_entry(lane.entry, lane.cfg, lane.cap);
                            m.feed(&buf[..head]);
                            ck.eval(&lane, &buf, Some(&m), None);
                            if pos == l {
                                break;
                            }
                        }
                        if pos < l {
                            buf[fs + pos] = f.fill;
                        }
                        if ck.full() {
                            return;
                        }
                    }
                }));
            }
        }
        p.phases.push(Phase { label: format!("S2b'': {} long fields (130/200/260/300) in front of 20 KiB of buffer × position × 4 bytes", fields.len()), backend: b, tasks });
    }
    p.bounds.push(format!("S2b'' long fields with 20 KiB behind the head: {:?}, lengths 130/200/260/300, one byte of {{00,09,0A,7F}} at every position, backends {:?}", fields.iter().map(|f| f.name).collect::<Vec<_>>(), backends.iter().map(|b| b.name()).collect::<Vec<_>>()));
}

/// Fields that span three pages, with one offending byte at every offset within 40 bytes of each
/// page boundary inside the buffer (buffer start page-aligned, and buffer end page-aligned): code
/// that treats loads near a page boundary specially, with kilobytes of buffer still to come.
pub fn add_page_boundary_sweep(p: &mut Plan, _q: bool, backends: &[Backend], names: &[&str]) {
    let fields: Vec<Field> = FIELDS.iter().filter(|f| f.name != "chunk-digits" && (names.is_empty() || names.contains(&f.name))).cloned().collect();
    for &b in backends {
        let mut tasks: Vec<TaskFn> = Vec::new();
        for f in fields.iter() {
            for place in [Place::StartFlush, Place::EndFlush] {
                let f = *f;
                tasks.push(Box::new(move |ck: &mut Checker| {
                    let lane = Lane { backend: b, place, ..Lane::new(f.entry, f.cfg, 4) };
                    let page = crate::arena::PAGE;
                    let l = 3 * page - 100;
                    let mut buf = Vec::with_capacity(3 * page + 64);
                    buf.extend_from_slice(f.pre);
                    buf.extend(std::iter::repeat(f.fill).take(l));
                    buf.extend_from_slice(f.post);
                    let total = buf.len();
                    one_shot(ck, &lane, &buf);
                    for j in 1..=2usize {
                        // offset of the j-th page boundary inside the buffer
                        let boundary = if place == Place::StartFlush { j * page } else { total - j * page };
                        for off in boundary - 40..=boundary + 40 {
                            if off < f.pre.len() || off >= f.pre.len() + l {
                                continue;
                            }
                            for v in [0x00u8, 0x09, 0x20, 0x7f, 0x0d] {
                                if v == f.fill {
                                    continue;
                                }
                                buf[off] = v;
                                one_shot(ck, &lane, &buf);
                            }
                            buf[off] = f.fill;
                            if ck.full() {
                                return;
                            }
                        }
                    }
                }));
            }
        }
        p.phases.push(Phase { label: format!("S2e: {} three-page fields × 2 placements × every offset within 40 bytes of each inner page boundary × 5 bytes", fields.len()), backend: b, tasks });
    }
    p.bounds.push(format!("S2e page boundaries: fields {:?} of 12 188 bytes, buffer start (end) page-aligned, one byte of {{00,09,20,7F,0D}} at every offset within 40 bytes of both inner page boundaries, backends {:?}", fields.iter().map(|f| f.name).collect::<Vec<_>>(), backends.iter().map(|b| b.name()).collect::<Vec<_>>()));
}


// --------------------------------------------------------------------------------------------
// S2(f): strings of whole header LINES (the symbol trees stop at 6-8 bytes; option interplay
// across three or four lines needs twenty)
// --------------------------------------------------------------------------------------------

const LINES: [&[u8]; 18] = [
    b"A: b\r\n",
    b"C: d\n",
    b"E:\r\n",
    b" f\r\n",
    b"\tg\n",
    b" \r\n",
    b" \x01\r\n",
    b"bad line\r\n",
    b"K : v\r\n",
    b" L: m\r\n",
    b": n\r\n",
    b"O: p\x01\r\n",
    b"Q: r\rx\r\n",
    b"\0\r\n",
    b"S: t \r\n",
    b"U:\tv\n",
    b"W\t:x\r\n",
    b"Y: \xff\r\n",
];

/// Every sequence of <= depth lines from an 18-line alphabet (valid lines in several spellings,
/// fold lines with and without content or a bad byte, SP-led header lines, lines with whitespace
/// before the colon, colon-less and empty-name lines, NUL and bare-CR lines), closed by CRLF / LF /
/// nothing, under the given (entry, config) lanes and capacities.
pub fn add_line_strings(p: &mut Plan, q: bool, lanes: &[(Entry, u8)], caps: &[u32]) {
    let depth = if q { 3 } else { 4 };
    let mut tasks: Vec<TaskFn> = Vec::new();
    for &(e, cfg) in lanes {
        for &cap in caps {
            for first in 0..LINES.len() {
                tasks.push(Box::new(move |ck: &mut Checker| {
                    let lane = Lane::new(e, cfg, cap);
                    let start: &[u8] = if e.is_req() { b"GET / HTTP/1.1\r\n" } else if e.is_resp() { b"HTTP/1.1 200 OK\r\n" } else { b"" };
                    let n = LINES.len();
                    let mut buf: Vec<u8> = Vec::new();
                    // the empty sequence once (task 0), then sequences that start with `first`
                    for d in (if first == 0 { 0 } else { 1 })..=depth {
                        let mut idx = vec![0usize; d];
                        if d > 0 {
                            idx[0] = first;
                        }
                        'outer: loop {
                            buf.clear();
                            buf.extend_from_slice(start);
                            for &i in &idx {
                                buf.extend_from_slice(LINES[i]);
                            }
                            let k = buf.len();
                            for tail in [&b"\r\n"[..], b"\n", b""] {
                                buf.truncate(k);
                                buf.extend_from_slice(tail);
                                one_shot(ck, &lane, &buf);
                            }
                            // (position 0 is fixed per task)
                            let mut j = d;
                            loop {
                                if j <= 1 {
                                    break 'outer;
                                }
                                j -= 1;
                                idx[j] += 1;
                                if idx[j] < n {
                                    break;
                                }
                                idx[j] = 0;
                            }
                        }
                        if ck.full() {
                            return;
                        }
                    }
                }));
            }
        }
    }
    p.phases.push(Phase { label: format!("S2f: header-line strings Σ(18 lines)^≤{} × 3 closings × {} lanes × capacities {:?}", depth, lanes.len(), caps), backend: Backend::Native, tasks });
    p.bounds.push(format!("S2f line strings: every sequence of <= {} lines over 18 line shapes × closings CRLF / LF / none × {} (entry, config) lanes × capacities {:?}", depth, lanes.len(), caps));
}

pub fn add_lane_phase(p: &mut Plan, q: bool, backends: &[Backend]) {
    let lmax = if q { 70 } else { 100 };
    for &b in backends {
        p.phases.push(Phase { label: format!("S2b: lane-phase sweep, {} fields × L≤{} × position × 256 values", FIELDS.len(), lmax), backend: b, tasks: lane_phase_tasks(&FIELDS, lmax, b) });
    }
    p.bounds.push(format!("S2b: fields method/target/header-name(2)/header-value(2)/reason/chunk-ext/chunk-digits/dropped-line(2), run length 0..={}, every position, all 256 values, backends {:?}", lmax, backends.iter().map(|b| b.name()).collect::<Vec<_>>()));
}

pub fn add_field_sweeps(p: &mut Plan, q: bool, backends: &[Backend], names: &[&str]) {
    let lmax = if q { 70 } else { 100 };
    let fields: Vec<Field> = FIELDS.iter().filter(|f| names.contains(&f.name)).cloned().collect();
    if !fields.is_empty() {
        for &b in backends {
            p.phases.push(Phase { label: format!("S2b: lane-phase sweep of {:?}, L≤{} × position × 256 values", names, lmax), backend: b, tasks: lane_phase_tasks(&fields, lmax, b) });
        }
        p.bounds.push(format!("S2b: {:?} run length 0..={}, every position, all 256 values, backends {:?}", names, lmax, backends.iter().map(|b| b.name()).collect::<Vec<_>>()));
    }
    if names.contains(&"req-version") {
        // all 256 values at each of the 8 version positions, after a target of every length
        // 0..=40 (so that the 8-byte fast path and the byte-wise path both see it), both EOLs
        let mut tasks: Vec<TaskFn> = Vec::new();
        tasks.push(Box::new(move |ck: &mut Checker| {
            for cfg in [0u8, C_MULTI_REQ] {
                let lane = Lane::new(Entry::ReqCfg, cfg, 2);
                for tl in 1..=40usize {
                    for tail in [&b"\r\n\r\n"[..], b"\n\n", b"", b"\r"] {
                        let mut buf = b"GET ".to_vec();
                        buf.extend(std::iter::repeat(b'/').take(tl));
                        buf.push(b' ');
                        let vpos = buf.len();
                        buf.extend_from_slice(b"HTTP/1.1");
                        buf.extend_from_slice(tail);
                        for i in 0..8 {
                            let orig = buf[vpos + i];
                            for v in 0..=255u8 {
                                buf[vpos + i] = v;
                                one_shot(ck, &lane, &buf);
                                // and truncated right after this byte
                                one_shot(ck, &lane, &buf[..vpos + i + 1]);
                            }
                            buf[vpos + i] = orig;
                        }
                    }
                }
            }
        }));
        p.phases.push(Phase { label: "S2c: all 256 values at each of the 8 version bytes (full and truncated), target lengths 1..=40".into(), backend: Backend::Native, tasks });
        p.bounds.push("S2c: request version literal: 8 positions × 256 values × target lengths 1..=40 × 4 tails × truncation".into());
    }
    if names.contains(&"code") {
        let mut tasks: Vec<TaskFn> = Vec::new();
        tasks.push(Box::new(move |ck: &mut Checker| {
            let b12: [u8; 12] = [b'0', b'1', b'9', b'/', b':', b' ', b'\r', b'\n', b'+', b'-', 0, 0xb2];
            for cfg in [0u8, C_MULTI_RESP] {
                let lane = Lane::new(Entry::RespCfg, cfg, 2);
                for code in 0..1000u32 {
                    for tail in [&b" X\r\n\r\n"[..], b"\r\n\r\n", b"\n\n", b"0\r\n\r\n", b""] {
                        let mut buf = format!("HTTP/1.1 {:03}", code).into_bytes();
                        buf.extend_from_slice(tail);
                        one_shot(ck, &lane, &buf);
                    }
                }
                for &a in &b12 {
                    for &b in &b12 {
                        for &c in &b12 {
                            for tail in [&b" X\r\n\r\n"[..], b"\r\n\r\n"] {
                                let mut buf = b"HTTP/1.0 ".to_vec();
                                buf.extend_from_slice(&[a, b, c]);
                                buf.extend_from_slice(tail);
                                one_shot(ck, &lane, &buf);
                            }
                        }
                    }
                }
            }
        }));
        p.phases.push(Phase { label: "S2c: all 1000 status codes × 5 tails; all 3-byte strings over 12 boundary bytes in the code position".into(), backend: Backend::Native, tasks });
        p.bounds.push("S2c: 1000 codes × 5 tails × 2 configs; 12^3 boundary strings × 2 tails × 2 configs".into());
    }
}

/// C09: digit counts 0..=20 with boundary patterns and every terminator shape; extension sweep.
pub fn add_chunk_sweeps(p: &mut Plan, q: bool) {
    let lmax = if q { 70 } else { 100 };
    let mut tasks: Vec<TaskFn> = Vec::new();
    tasks.push(Box::new(move |ck: &mut Checker| {
        let lane = Lane::new(Entry::Chunk, 0, 0);
        let terms: [&[u8]; 16] = [b"\r\n", b"\n", b"\r", b"", b" \r\n", b"\t \r\n", b";\r\n", b";a=b\r\n", b" ;x\r\n", b"\r\r\n", b" 1\r\n", b"g\r\n", b";name=F0e9\r\n", b" \t; 0\r\n", b";q=\"a\\\"b\"\r\n", b";a=\"b\\\r\n"];
        for n in 0..=20usize {
            let mut pats: Vec<Vec<u8>> = Vec::new();
            pats.push(vec![b'0'; n]);
            pats.push(vec![b'f'; n]);
            pats.push(vec![b'F'; n]);
            pats.push(vec![b'9'; n]);
            if n > 0 {
                let mut v = vec![b'0'; n];
                v[0] = b'1';
                pats.push(v);
                let mut v = vec![b'f'; n];
                v[0] = b'7';
                pats.push(v);
                let mut v = vec![b'0'; n];
                v[0] = b'8';
                pats.push(v);
                let mut v = vec![b'0'; n];
                v[n - 1] = b'1';
                pats.push(v);
                pats.push((0..n).map(|i| b"aB3dE9f0"[i % 8]).collect());
                let mut v = vec![b'f'; n];
                v[0] = b'0';
                pats.push(v);
            }
            for pat in &pats {
                for t in terms {
                    let mut buf = pat.clone();
                    buf.extend_from_slice(t);
                    one_shot(ck, &lane, &buf);
                    buf.extend_from_slice(b"tail");
                    one_shot(ck, &lane, &buf);
                    // followed by chunk data and the next chunk lines (fast paths keyed on how much
                    // of the buffer is left)
                    buf.extend_from_slice(b" of the chunk data\r\n5\r\nhello\r\n0\r\n\r\n");
                    one_shot(ck, &lane, &buf);
                }
            }
        }
    }));
    // extension of every length 0..=40 followed by chunk data that has a bare CR / LF / NUL within
    // 0..=15 bytes behind the line end (block-wise extension skippers look past the CRLF)
    tasks.push(Box::new(move |ck: &mut Checker| {
        let lane = Lane::new(Entry::Chunk, 0, 0);
        let mut buf: Vec<u8> = Vec::new();
        for pre in [&b"5;"[..], b"5;name=", b"1f ;"] {
            for l in 0..=40usize {
                for k in 0..=15usize {
                    for x in [b'\r', b'\n', 0u8] {
                        buf.clear();
                        buf.extend_from_slice(pre);
                        buf.extend(std::iter::repeat(b'e').take(l));
                        buf.extend_from_slice(b"\r\n");
                        buf.extend(std::iter::repeat(b'd').take(k));
                        buf.push(x);
                        buf.extend_from_slice(b"bcd\r\n0;last\r\n\r\n");
                        one_shot(ck, &lane, &buf);
                    }
                }
            }
            if ck.full() {
                return;
            }
        }
    }));
    // every string of <= 4 symbols of the chunk alphabet, alone and in front of 24 more bytes
    tasks.push(Box::new(move |ck: &mut Checker| {
        let lane = Lane::new(Entry::Chunk, 0, 0);
        let alpha = crate::s1::chunk_alphabet();
        let n = alpha.len();
        let mut buf: Vec<u8> = Vec::new();
        for d in 0..=4usize {
            let mut idx = vec![0usize; d];
            'outer: loop {
                buf.clear();
                for &i in &idx {
                    buf.extend_from_slice(&alpha[i]);
                }
                let k = buf.len();
                buf.extend_from_slice(b"5\r\nhello\r\n0\r\n\r\nmore data");
                one_shot(ck, &lane, &buf);
                buf.truncate(k);
                let mut j = d;
                loop {
                    if j == 0 {
                        break 'outer;
                    }
                    j -= 1;
                    idx[j] += 1;
                    if idx[j] < n {
                        break;
                    }
                    idx[j] = 0;
                }
            }
            if ck.full() {
                return;
            }
        }
    }));
    // chunk extensions as a language of their own: every string of <= 6 symbols over
    // {a = " \ ; SP CR LF} behind "4;" and behind "4;n=" (quoted strings, escapes)
    for pre in [&b"4;"[..], b"4;n=", b"4 ;n=\""] {
        tasks.push(Box::new(move |ck: &mut Checker| {
            let lane = Lane::new(Entry::Chunk, 0, 0);
            let alpha: [u8; 8] = [b'a', b'=', b'"', b'\\', b';', b' ', b'\r', b'\n'];
            let mut buf: Vec<u8> = Vec::new();
            for d in 0..=6usize {
                let mut idx = vec![0usize; d];
                'outer: loop {
                    buf.clear();
                    buf.extend_from_slice(pre);
                    for &i in &idx {
                        buf.push(alpha[i]);
                    }
                    one_shot(ck, &lane, &buf);
                    buf.extend_from_slice(b"\r\nDATA\r\n0\r\n\r\n");
                    one_shot(ck, &lane, &buf);
                    let mut j = d;
                    loop {
                        if j == 0 {
                            break 'outer;
                        }
                        j -= 1;
                        idx[j] += 1;
                        if idx[j] < alpha.len() {
                            break;
                        }
                        idx[j] = 0;
                    }
                }
                if ck.full() {
                    return;
                }
            }
        }));
    }
    let ext = FIELDS[7];
    tasks.extend(lane_phase_tasks(&[ext], lmax, Backend::Native));
    // every byte value at every position of a run of 0..=20 digits
    tasks.extend(lane_phase_tasks(&[FIELDS[8]], 20, Backend::Native));
    // and of the chunk templates
    let cts: Vec<Template> = templates().into_iter().filter(|t| t.kind == TKind::Chunk).collect();
    tasks.extend(mutation_tasks(&cts, Backend::Native, 0));
    p.phases.push(Phase { label: format!("S2c: chunk digit counts 0..=20 × 10 boundary patterns × 16 terminators (alone, + tail, + chunk data); Σ(14)^≤4 in front of 24 more bytes; extension strings Σ(8)^≤6 over a = quote backslash ; SP CR LF behind 3 prefixes; extension L≤{} × position × 256 values", lmax), backend: Backend::Native, tasks });
    p.bounds.push(format!("S2c: chunk size digit counts 0..=20, patterns 0…0 f…f F…F 9…9 10…0 7f…f 80…0 0…01 mixed 0f…f, 16 terminator shapes (hex digits inside the extension, quoted strings with escapes), each alone, followed by 4 bytes and followed by chunk data; every chunk-alphabet string of <= 4 symbols in front of 24 more bytes; every extension string of <= 6 symbols over {{a,=,quote,backslash,;,SP,CR,LF}} behind three prefixes (4; / 4;n= / 4 ;n=quote), alone and followed by a line end and data; extension run 0..={} × position × 256 values", lmax));
}

// --------------------------------------------------------------------------------------------
// C13 in-process legs: forced backends and alignments must not change any result
// --------------------------------------------------------------------------------------------

fn obs_digest(h: u64, o: &Obs) -> u64 {
    let mut h = h;
    let mut mix = |v: u64| {
        h ^= v;
        h = h.wrapping_mul(0x100000001b3);
        h = h.rotate_left(17);
    };
    match o.st {
        St::Partial => mix(1),
        St::Complete(n) => mix(2 + ((n as u64) << 8)),
        St::Err(k) => mix(3 + ((k as u64) << 8)),
    }
    for f in [&o.method, &o.path, &o.reason] {
        mix(f.some as u64 | (f.outside as u64) << 1 | (f.len() as u64) << 8 | if f.len() > 0 { (f.s as u64) << 32 } else { 0 });
    }
    mix(o.version.map_or(99, |v| v as u64));
    mix(o.code.map_or(9999, |v| v as u64));
    mix(o.chunk_size);
    mix(o.nh as u64);
    mix(o.hash);
    mix(o.flags as u64);
    h
}

type Corpus = Arc<dyn Fn(&mut dyn FnMut(&Lane, &[u8])) + Send + Sync>;

fn corpus_pieces(q: bool) -> Vec<Corpus> {
    let mut v: Vec<Corpus> = Vec::new();
    let lmax = if q { 70 } else { 100 };
    for f in FIELDS.iter() {
        let f = *f;
        v.push(Arc::new(move |g: &mut dyn FnMut(&Lane, &[u8])| {
            let lane = Lane::new(f.entry, f.cfg, 2);
            lane_phase_inputs(&f, lmax, &mut |i| g(&lane, i));
        }));
    }
    for t in quick_templates(q) {
        for cfg in cfgs_for(&t) {
            let t = t.clone();
            v.push(Arc::new(move |g: &mut dyn FnMut(&Lane, &[u8])| {
                let lane = Lane::new(entry_for(t.kind), cfg, 8);
                for_each_mutant(&t.bytes, &mut |i| g(&lane, i));
            }));
        }
    }
    // long fields (beyond any vector stride), three remainders, boundary bytes at every position
    for f in FIELDS.iter().filter(|f| f.name != "chunk-digits") {
        for post in long_posts(f) {
            let f = *f;
            v.push(Arc::new(move |g: &mut dyn FnMut(&Lane, &[u8])| {
                let lane = Lane::new(f.entry, f.cfg, 8);
                let llong = if q { 300 } else { 520 };
                let mut buf = Vec::new();
                for l in (71..=llong).step_by(if q { 3 } else { 1 }) {
                    buf.clear();
                    buf.extend_from_slice(f.pre);
                    buf.extend(std::iter::repeat(f.fill).take(l));
                    buf.extend_from_slice(&post);
                    g(&lane, &buf);
                    for pos in 0..l {
                        for &v in LONG_VALS.iter() {
                            buf[f.pre.len() + pos] = v;
                            g(&lane, &buf);
                        }
                        buf[f.pre.len() + pos] = f.fill;
                    }
                }
            }));
        }
    }
    // an in-class edge byte and an out-of-class byte a lane or several apart, and long fields in
    // front of 20 KiB
    for f in FIELDS.iter().filter(|f| f.name != "chunk-digits" && f.name != "chunk-ext") {
        let f = *f;
        v.push(Arc::new(move |g: &mut dyn FnMut(&Lane, &[u8])| {
            let lane = Lane::new(f.entry, f.cfg, 8);
            let fs = f.pre.len();
            for l in [130usize, 200, 300] {
                let mut buf = Vec::new();
                buf.extend_from_slice(f.pre);
                buf.extend(std::iter::repeat(f.fill).take(l));
                buf.extend_from_slice(f.post);
                buf.extend(std::iter::repeat(b'b').take(if l == 200 { 20 * 1024 } else { 0 }));
                for p1 in 0..l {
                    for d in [8usize, 16, 32, 64, 96, 128] {
                        let p2 = p1 + d;
                        if p2 >= l {
                            break;
                        }
                        for x in [0x09u8, 0x20, 0x21, 0x80, 0xff] {
                            for y in [0x00u8, 0x0a, 0x1f, 0x7f] {
                                for swap in [false, true] {
                                    let (a, b) = if swap { (y, x) } else { (x, y) };
                                    buf[fs + p1] = a;
                                    buf[fs + p2] = b;
                                    g(&lane, &buf);
                                }
                            }
                        }
                        buf[fs + p2] = f.fill;
                    }
                    buf[fs + p1] = f.fill;
                }
            }
        }));
    }
    // three-page fields with one offending byte around each inner page boundary
    for f in FIELDS.iter().filter(|f| f.name != "chunk-digits") {
        for place in [Place::StartFlush, Place::EndFlush] {
            let f = *f;
            v.push(Arc::new(move |g: &mut dyn FnMut(&Lane, &[u8])| {
                let lane = Lane { place, ..Lane::new(f.entry, f.cfg, 4) };
                let page = crate::arena::PAGE;
                let l = 3 * page - 100;
                let mut buf = Vec::with_capacity(3 * page + 64);
                buf.extend_from_slice(f.pre);
                buf.extend(std::iter::repeat(f.fill).take(l));
                buf.extend_from_slice(f.post);
                let total = buf.len();
                g(&lane, &buf);
                for j in 1..=2usize {
                    let boundary = if place == Place::StartFlush { j * page } else { total - j * page };
                    for off in boundary - 40..=boundary + 40 {
                        if off < f.pre.len() || off >= f.pre.len() + l {
                            continue;
                        }
                        for x in [0x00u8, 0x09, 0x20, 0x7f, 0x0a] {
                            buf[off] = x;
                            g(&lane, &buf);
                        }
                        buf[off] = f.fill;
                    }
                }
            }));
        }
    }
    // stretched symbol strings: every string over a small header alphabet with the run symbol
    // stretched to 17 / 33 bytes
    for k in [17usize, 33] {
        for e in [Entry::ReqCfg, Entry::RespCfg] {
            v.push(Arc::new(move |g: &mut dyn FnMut(&Lane, &[u8])| {
                let lane = Lane::new(e, if e == Entry::RespCfg { C_FOLDING | C_SPACES_AFTER_NAME } else { 0 }, 4);
                let alpha = crate::s1::header_alphabet(k);
                let pre = crate::s1::start_line_for(e);
                let d = 4;
                let n = alpha.len();
                let mut idx = vec![0usize; d];
                let mut buf = Vec::new();
                'outer: loop {
                    buf.clear();
                    buf.extend_from_slice(pre);
                    for &i in &idx {
                        buf.extend_from_slice(&alpha[i]);
                    }
                    g(&lane, &buf);
                    let mut j = d;
                    loop {
                        if j == 0 {
                            break 'outer;
                        }
                        j -= 1;
                        idx[j] += 1;
                        if idx[j] < n {
                            break;
                        }
                        idx[j] = 0;
                    }
                }
            }));
        }
    }
    v
}

pub fn add_backend_agreement(p: &mut Plan, q: bool) {
    let pieces = corpus_pieces(q);
    let n = pieces.len();
    let table: Arc<Mutex<Vec<[u64; 3]>>> = Arc::new(Mutex::new(vec![[0; 3]; n]));
    for (bi, &b) in crate::plan::BACKENDS.iter().enumerate() {
        let mut tasks: Vec<TaskFn> = Vec::new();
        for (pi, piece) in pieces.iter().enumerate() {
            let piece = piece.clone();
            let table = table.clone();
            tasks.push(Box::new(move |ck: &mut Checker| {
                let mut h = 0xcbf29ce484222325u64;
                piece(&mut |lane, input| {
                    let l = Lane { backend: b, ..*lane };
                    let (o, _) = ck.eval(&l, input, None, None);
                    h = obs_digest(h, &o);
                });
                table.lock().unwrap()[pi][bi] = h;
            }));
        }
        p.phases.push(Phase { label: format!("C13: shared corpus ({} pieces) under forced backend", n), backend: b, tasks });
    }
    // comparison: single task, hence single thread, so per-call backend forcing is safe
    let table2 = table.clone();
    let pieces2 = pieces.clone();
    let cmp: TaskFn = Box::new(move |ck: &mut Checker| {
        let t = table2.lock().unwrap().clone();
        for (pi, row) in t.iter().enumerate() {
            if row[0] == row[1] && row[1] == row[2] {
                continue;
            }
            // narrow down to the first input on which the backends differ
            let mut found = false;
            pieces2[pi](&mut |lane, input| {
                if found {
                    return;
                }
                let mut obs = Vec::new();
                for &b in crate::plan::BACKENDS.iter() {
                    b.force();
                    let l = Lane { backend: b, ..*lane };
                    obs.push((l, ck.caller.call(&l, input)));
                }
                for i in 1..3 {
                    if !obs[0].1.same_result(&obs[i].1) || obs[0].1.flags != obs[i].1.flags {
                        ck.relation_tag = "backends";
                        ck.violation(
                            format!("result differs between scanner backends {} and {}", obs[0].0.backend.name(), obs[i].0.backend.name()),
                            &obs[0].0, input, describe_obs(&obs[0].1), describe_obs(&obs[i].1),
                            Some((obs[i].0, input.to_vec(), describe_obs(&obs[i].1))),
                        );
                        ck.relation_tag = "none";
                        found = true;
                        break;
                    }
                }
            });
            if !found {
                let lane = Lane::new(Entry::Chunk, 0, 0);
                ck.violation(format!("digest of corpus piece {} differs between backends but no single input reproduces it", pi), &lane, b"", format!("{:x?}", row), "equal digests".into(), None);
            }
        }
        Backend::Native.force();
    });
    p.phases.push(Phase { label: "C13: compare per-piece digests across AVX2 / SSE4.2 / scalar".into(), backend: Backend::Native, tasks: vec![cmp] });
    p.bounds.push(format!("shared corpus: S2b lane-phase sweeps (9 fields × L≤{} × position × 256 values), S2a mutants of {} templates, χ_17/χ_33 strings Σ(11)^4 in request and response heads; each under forced AVX2, SSE4.2 and scalar runtime backends", if q { 70 } else { 100 }, quick_templates(q).len()));
}

/// Alignment: the same input placed at every start alignment 0..31 (and both guard-flush
/// placements) must give the same result.
pub fn add_alignment_agreement(p: &mut Plan, q: bool) {
  let lmax = if q { 72 } else { 100 };
  for &backend in crate::plan::BACKENDS.iter() {
    let mut tasks: Vec<TaskFn> = Vec::new();
    for f in FIELDS.iter() {
        let f = *f;
        tasks.push(Box::new(move |ck: &mut Checker| {
            let base = Lane { backend, ..Lane::new(f.entry, f.cfg, 2) };
            let mut buf = Vec::new();
            for l in 0..=lmax {
                // offending byte at the first, a middle and the last position, plus none
                for (pos, v) in [(None, 0u8), (Some(0usize), 0x7f), (Some(l / 2), 0x00), (Some(l.saturating_sub(1)), 0x7f)] {
                    buf.clear();
                    buf.extend_from_slice(f.pre);
                    buf.extend(std::iter::repeat(f.fill).take(l));
                    buf.extend_from_slice(f.post);
                    if let Some(pos) = pos {
                        if pos < l {
                            buf[f.pre.len() + pos] = v;
                        }
                    }
                  // alone, and followed by a second line / body (vector scanners need >= 16 / 32
                  // bytes of data after the field's end to take their block path)
                  for body in [&b""[..], b"Next-Header: value-after\r\n\r\nbody bytes to fill a vector"] {
                    if !body.is_empty() {
                        let keep = f.pre.len() + l + f.post.len();
                        buf.truncate(keep);
                        // drop the empty line that ends the head so that the body's first line belongs to it
                        if buf.ends_with(b"\r\n\r\n") {
                            buf.truncate(keep - 2);
                        } else if buf.ends_with(b"\n\n") {
                            buf.truncate(keep - 1);
                        }
                        buf.extend_from_slice(body);
                    }
                    let (o0, _) = ck.eval(&base, &buf, None, None);
                    let mut places = vec![Place::StartFlush];
                    places.extend((0..32).map(Place::Mid));
                    places.extend((0..8).map(Place::Hostile));
                    // the data straddles a page boundary k bytes in
                    places.extend([1usize, 2, 3, 7, 8, 9, 15, 16, 17, 31, 32, 33, 63, 64, 65].iter().map(|k| Place::Mid(crate::arena::PAGE - k)));
                    for pl in places {
                        let l2 = Lane { place: pl, ..base };
                        let (o, _) = ck.eval(&l2, &buf, None, None);
                        ck.stats.pairs_compared += 1;
                        if !o.same_result(&o0) {
                            ck.relation_tag = "alignment";
                            let b2 = buf.clone();
                            ck.violation(format!("result depends on buffer placement {:?}", pl), &l2, &b2, describe_obs(&o), describe_obs(&o0), Some((base, b2.clone(), describe_obs(&o0))));
                            ck.relation_tag = "none";
                        }
                    }
                  }
                }
            }
        }));
    }
    p.phases.push(Phase { label: format!("C13: 9 fields × L≤{} × 4 offending-byte shapes × 57 placements (start alignment 0..31, start-flush, end-flush, 8 with in-class bytes around the buffer, 15 straddling a page boundary)", lmax), backend, tasks });
  }
    p.bounds.push(format!("alignment (under each forced backend avx2 / sse4.2 / scalar): field run lengths 0..={} × 4 shapes × start alignments 0..=31 + both guard-flush placements + a page boundary 1..65 bytes into the data", lmax));
}

pub fn replay_agreement(ck: &mut Checker, lane: &Lane, input: &[u8], relation: &str) -> i32 {
    if relation == "backends" {
        let mut obs = Vec::new();
        for &b in crate::plan::BACKENDS.iter() {
            if !b.force() {
                continue;
            }
            let l = Lane { backend: b, ..*lane };
            let o = ck.caller.call(&l, input);
            println!("  {:<8}: {}", b.name(), describe_obs(&o));
            obs.push(o);
        }
        Backend::Native.force();
        if obs.windows(2).any(|w| !w[0].same_result(&w[1]) || w[0].flags != w[1].flags) {
            println!("  VIOLATED : result differs between scanner backends");
            return 1;
        }
        0
    } else {
        let base = Lane { place: Place::EndFlush, ..*lane };
        let o0 = ck.caller.call(&base, input);
        let o = ck.caller.call(lane, input);
        println!("  end-flush: {}", describe_obs(&o0));
        println!("  {:?}: {}", lane.place, describe_obs(&o));
        if !o.same_result(&o0) {
            println!("  VIOLATED : result depends on buffer placement");
            return 1;
        }
        0
    }
}
