//! explore — stateless model checking of httparse on enumerated input spaces.
//!
//!   explore run <property> <quick|thorough> --out <json> [--threads N] [--wall-cap secs] [--journal path]
//!   explore replay <file>
//!   explore journal <journal-file> <out-dir> <property>     turn journal slots into replay files
//!   explore model-graph                                     abstract-graph checks of the reference model

mod alloc;
mod arena;
mod call;
mod journal;
mod json;
mod model;
mod neon_emu;
mod oracle;
mod plan;
mod replay;
mod runner;
mod s1;
mod s2;
mod s3;
mod s8;

/// Host for the textually included NEON scanner source (see build.rs).
mod iter {
    pub use httparse::_benchable::Bytes;
}
mod neon_host {
    /// what neon.rs reaches through `super::swar::*`: the real word-at-a-time scanners
    pub mod swar {
        use httparse::_benchable::Bytes;
        pub fn match_uri_vectored(b: &mut Bytes<'_>) {
            httparse::_verif::scan(httparse::_verif::BACKEND_SWAR, httparse::_verif::CLASS_URI, b);
        }
        pub fn match_header_value_vectored(b: &mut Bytes<'_>) {
            httparse::_verif::scan(httparse::_verif::BACKEND_SWAR, httparse::_verif::CLASS_HEADER_VALUE, b);
        }
        pub fn match_header_name_vectored(b: &mut Bytes<'_>) {
            httparse::_verif::scan(httparse::_verif::BACKEND_SWAR, httparse::_verif::CLASS_HEADER_NAME, b);
        }
    }
    #[allow(dead_code, clippy::all)]
    pub mod neon {
        include!(concat!(env!("OUT_DIR"), "/neon_subject.rs"));
    }
}

use std::path::PathBuf;
use std::sync::Arc;
use std::time::{Duration, Instant};

#[global_allocator]
static GLOBAL: alloc::Counting = alloc::Counting;

fn arg_after(args: &[String], key: &str) -> Option<String> {
    args.iter().position(|a| a == key).and_then(|i| args.get(i + 1).cloned())
}

fn main() {
    let args: Vec<String> = std::env::args().collect();
    // panics of the subject are caught per call and reported as violations; keep stderr quiet
    std::panic::set_hook(Box::new(|_| {}));
    match args.get(1).map(|s| s.as_str()) {
        Some("run") => run(&args),
        Some("replay") => std::process::exit(replay::replay_file(&args[2])),
        Some("journal") => replay::journal_to_replays(&args[2], &args[3], &args[4]),
        Some("model-graph") => model_graph(),
        _ => {
            eprintln!("usage: explore run <property> <quick|thorough> --out <json> | replay <file> | journal <file> <dir> <prop> | model-graph");
            std::process::exit(2);
        }
    }
}

/// Runs one enumeration task of a plan on a fresh single-threaded checker; returns its violations.
pub fn run_task(prop: &str, tier: &str, phase: usize, task: usize) -> Vec<oracle::Violation> {
    let t = if tier == "thorough" { plan::Tier::Thorough } else { plan::Tier::Quick };
    let p = match plan::plan(prop, t) {
        Some(p) => p,
        None => return Vec::new(),
    };
    let ph = match p.phases.get(phase) {
        Some(ph) => ph,
        None => return Vec::new(),
    };
    // task == usize::MAX: every task of the phase, in index order, on the same caller
    if (task != usize::MAX && task >= ph.tasks.len()) || !ph.backend.force() {
        return Vec::new();
    }
    let journal = Arc::new(journal::Journal::anonymous());
    let mut ck = oracle::Checker::new(prop, p.armed, call::Caller::new(journal.slot(0), (1 << 22) + (1 << 16), 800_000));
    ck.limit = 64;
    for (i, t) in ph.tasks.iter().enumerate() {
        if task == usize::MAX || task == i {
            ck.task_id = (phase as u32, i as u32);
            t(&mut ck);
            if ck.full() {
                break;
            }
        }
    }
    call::Backend::Native.force();
    ck.violations
}

/// Runs phases 0..=last of a plan, every task in order, on ONE fresh caller (single-threaded,
/// deterministic call order); stops at the first violation.
pub fn run_sequential(prop: &str, tier: &str, last: usize) -> Vec<oracle::Violation> {
    let t = if tier == "thorough" { plan::Tier::Thorough } else { plan::Tier::Quick };
    let p = match plan::plan(prop, t) {
        Some(p) => p,
        None => return Vec::new(),
    };
    let journal = Arc::new(journal::Journal::anonymous());
    let mut ck = oracle::Checker::new(prop, p.armed, call::Caller::new(journal.slot(0), (1 << 22) + (1 << 16), 800_000));
    ck.limit = 8;
    'all: for (pi, ph) in p.phases.iter().enumerate().take(last + 1) {
        if !ph.backend.force() {
            continue;
        }
        for (i, t) in ph.tasks.iter().enumerate() {
            ck.task_id = (pi as u32, i as u32);
            t(&mut ck);
            if ck.nviol > 0 {
                break 'all;
            }
        }
    }
    call::Backend::Native.force();
    ck.violations
}

fn run(args: &[String]) {
    let _ = replay::RUN_TIER.set(args[3].clone());
    let prop = args[2].clone();
    let tier = match args[3].as_str() {
        "quick" => plan::Tier::Quick,
        "thorough" => plan::Tier::Thorough,
        _ => {
            eprintln!("tier must be quick or thorough");
            std::process::exit(2);
        }
    };
    let out = arg_after(args, "--out").expect("--out");
    let threads: usize = arg_after(args, "--threads").and_then(|s| s.parse().ok()).unwrap_or(16);
    let cap: u64 = arg_after(args, "--wall-cap").and_then(|s| s.parse().ok()).unwrap_or(if tier == plan::Tier::Quick { 45 } else { 1200 });
    let jpath = arg_after(args, "--journal").map(PathBuf::from);
    let replay_dir = arg_after(args, "--replays").unwrap_or_else(|| "/verif/replays".to_string());
    let p = match plan::plan(&prop, tier) {
        Some(p) => p,
        None => {
            eprintln!("no exploration plan for property {}", prop);
            std::process::exit(2);
        }
    };
    let journal = Arc::new(match &jpath {
        Some(p) => journal::Journal::create(p),
        None => journal::Journal::anonymous(),
    });
    let cfg = runner::RunCfg {
        prop: prop.clone(),
        armed: p.armed,
        threads,
        wall_cap: Duration::from_secs(cap),
        max_input: (1 << 22) + (1 << 16),
        max_headers: 800_000,
    };
    // denominator of the transition coverage: what the trees' alphabets can reach at any depth
    let mut reach = std::collections::HashSet::new();
    {
        let trees = p.trees.lock().unwrap();
        let mut done = std::collections::HashSet::new();
        for t in trees.iter() {
            let key = (t.lane.entry, t.lane.cfg, t.lane.cap, t.ctx.clone(), t.alphabet.len(), t.alphabet.first().map(|a| a.len()));
            if done.insert(key) {
                s1::reachable_pairs(t, &mut reach);
            }
        }
    }
    let t0 = Instant::now();
    let res = runner::run(&cfg, journal, p.phases);
    let wall = t0.elapsed().as_secs_f64();

    // deterministic choice of the reported violations: shortest input first
    let mut viol = res.violations.clone();
    viol.sort_by(|a, b| (a.input.len(), &a.input, a.lane.cfg, a.lane.cap).cmp(&(b.input.len(), &b.input, b.lane.cfg, b.lane.cap)));
    let mut files = Vec::new();
    let _ = std::fs::create_dir_all(&replay_dir);
    for v in viol.iter().take(5) {
        files.push(replay::write_replay(&replay_dir, &prop, p.armed, v));
    }
    let phases: Vec<String> = res
        .phases
        .iter()
        .map(|r| {
            json::obj(&[
                ("label", json::s(&r.label)),
                ("backend", json::s(r.backend)),
                ("tasks", r.tasks.to_string()),
                ("tasks_done", r.done.to_string()),
                ("nodes", r.nodes.to_string()),
                ("secs", format!("{:.2}", r.secs)),
                ("skipped", r.skipped.to_string()),
            ])
        })
        .collect();
    let st = &res.stats;
    let outcome_names = ["Partial", "Complete", "Err(HeaderName)", "Err(HeaderValue)", "Err(NewLine)", "Err(Status)", "Err(Token)", "Err(TooManyHeaders)", "Err(Version)", "Err(InvalidChunkSize)"];
    let mut outcomes = Vec::new();
    for (i, n) in outcome_names.iter().enumerate() {
        let tot: u64 = st.outcomes[i].iter().sum();
        if tot > 0 {
            outcomes.push((n.to_string(), tot.to_string()));
        }
    }
    let outcomes_json = format!("{{{}}}", outcomes.iter().map(|(k, v)| format!("\"{}\":{}", k, v)).collect::<Vec<_>>().join(","));
    let j = json::obj(&[
        ("property", json::s(&prop)),
        ("tier", json::s(&args[3])),
        ("build", json::s(httparse::_verif::build_info())),
        ("profile", json::s(match replay::profile_name() { "vdbg" => "vdbg (release + debug-assertions + overflow-checks)", "vovf" => "vovf (release + overflow-checks, no debug assertions)", _ => "release" })),
        ("nodes", st.nodes.to_string()),
        ("edges", st.edges.to_string()),
        ("calls", res.calls.to_string()),
        ("model_compared", st.model_compared.to_string()),
        ("completions_tried", st.completions_tried.to_string()),
        ("completions_exempt", st.completions_exempt.to_string()),
        ("pairs_compared", st.pairs_compared.to_string()),
        ("max_input_len", st.max_len.to_string()),
        ("distinct_outcomes", st.distinct_outcomes().to_string()),
        ("outcomes", outcomes_json),
        ("model_control_states_seen", st.control_states().to_string()),
        ("model_transitions_covered", st.pairs_covered().to_string()),
        ("model_transitions_reachable", reach.len().to_string()),
        ("block_scanner_nodes", st.block_nodes.to_string()),
        ("exhaustive", res.exhaustive.to_string()),
        ("violations", res.nviol.to_string()),
        ("replays", json::arr(&files.iter().map(|f| json::s(f)).collect::<Vec<_>>())),
        ("bounds", json::arr(&p.bounds.iter().map(|b| json::s(b)).collect::<Vec<_>>())),
        ("phases", json::arr(&phases)),
        ("samples", json::arr(&st.samples)),
        ("wall_s", format!("{:.2}", wall)),
    ]);
    std::fs::write(&out, j).expect("write --out");
    for r in &res.phases {
        eprintln!("  [{:>7.2}s] {:<10} {:>12} nodes  {}/{} tasks  {}{}", r.secs, r.backend, r.nodes, r.done, r.tasks, r.label, if r.skipped { "  (skipped)" } else { "" });
    }
    eprintln!("{} {:?}: {} nodes, {} calls, {} violations, exhaustive={}, {:.1}s", prop, tier, st.nodes, res.calls, res.nviol, res.exhaustive, wall);
    std::process::exit(if res.nviol > 0 { 1 } else { 0 });
}

fn model_graph() {
    use refmodel::graph::explore;
    use refmodel::*;
    let mut items = Vec::new();
    let mut errors = 0;
    let mut add = |name: String, r: refmodel::graph::GraphReport| {
        errors += r.errors.len();
        for e in &r.errors {
            eprintln!("MODEL-ERROR {}: {}", name, e);
        }
        items.push(json::obj(&[
            ("machine", json::s(&name)),
            ("states", r.states.to_string()),
            ("transitions", r.transitions.to_string()),
            ("nonterminal", r.nonterminal.to_string()),
            ("completions_ok", r.completions_ok.to_string()),
            ("completions_declined", r.completions_declined.to_string()),
            ("dead_states", r.dead_states.to_string()),
            ("errors", r.errors.len().to_string()),
        ]));
    };
    for bits in 0..16u8 {
        for cap in 0..3 {
            add(format!("header-block opts={:#06b} cap={}", bits, cap), explore(Hdr::new(HdrOpts::from_bits(bits), cap, 0)));
        }
    }
    for multi in [false, true] {
        for bits in [0u8, 4, 8, 12] {
            for cap in 0..3 {
                add(format!("request multi={} opts={:#06b} cap={}", multi, bits, cap), explore(Req::new(multi, HdrOpts::from_bits(bits), cap)));
            }
        }
        for bits in 0..16u8 {
            for cap in 0..3 {
                add(format!("response multi={} opts={:#06b} cap={}", multi, bits, cap), explore(Resp::new(multi, HdrOpts::from_bits(bits), cap)));
            }
        }
    }
    add("chunk-size".into(), explore(Chunk::new()));
    println!("{}", json::arr(&items));
    std::process::exit(if errors > 0 { 2 } else { 0 });
}
