use crate::plan::Plan;
pub fn add_grids(_p: &mut Plan, _q: bool) {}
pub fn add_alignment_agreement(_p: &mut Plan, _q: bool) {}
pub fn replay(_t: &str) -> i32 { 0 }
