//! S3 — scanner grids (C12): backends × classes × lengths × positions × all 256 byte values ×
//! placements, pairs of offending positions, and a boundary-value alphabet ^8 on 8-byte buffers.
//!
//! Oracle: the cursor stops at the first byte outside the class as written in the property
//! statement, or at the end of the buffer.

use crate::arena::Place;
use crate::call::{Backend, Entry, Lane};
use crate::json;
use crate::oracle::{hex, printable, Checker};
use crate::plan::Plan;
use crate::runner::{Phase, TaskFn};
use httparse::_benchable::Bytes;
use refmodel::{is_tchar, is_target_byte, is_value_byte};

pub const B_SWAR: u8 = 0;
pub const B_AVX2: u8 = 1;
pub const B_SSE42: u8 = 2;
pub const B_DISPATCH: u8 = 3;
pub const B_NEON: u8 = 4;
pub const BACKEND_NAMES: [&str; 5] = ["swar", "avx2", "sse4.2", "dispatch", "neon(emulated)"];
pub const CLASS_NAMES: [&str; 3] = ["target", "header-value", "header-name"];

pub fn in_class(class: u8, b: u8) -> bool {
    match class {
        0 => is_target_byte(b),
        1 => is_value_byte(b),
        _ => is_tchar(b),
    }
}

/// Runs one scanner; None if that (backend, class) does not exist in this build / on this CPU.
pub fn scan(backend: u8, class: u8, buf: &[u8]) -> Option<usize> {
    let mut b = Bytes::new(buf);
    if backend == B_NEON {
        match class {
            0 => crate::neon_host::neon::match_uri_vectored(&mut b),
            1 => crate::neon_host::neon::match_header_value_vectored(&mut b),
            _ => crate::neon_host::neon::match_header_name_vectored(&mut b),
        }
        return Some(b.pos());
    }
    if httparse::_verif::scan(backend, class, &mut b) {
        Some(b.pos())
    } else {
        None
    }
}

/// Like `scan`, but the cursor has already moved `pre` bytes into `buf` (without committing), as
/// it has when the parser enters a scanner in the middle of a token or after a fold.
pub fn scan_from(backend: u8, class: u8, buf: &[u8], pre: usize) -> Option<usize> {
    let mut b = Bytes::new(buf);
    // SAFETY: pre <= buf.len() (checked by the caller)
    unsafe { b.advance(pre) };
    if backend == B_NEON {
        match class {
            0 => crate::neon_host::neon::match_uri_vectored(&mut b),
            1 => crate::neon_host::neon::match_header_value_vectored(&mut b),
            _ => crate::neon_host::neon::match_header_name_vectored(&mut b),
        }
        return Some(b.pos());
    }
    if httparse::_verif::scan(backend, class, &mut b) {
        Some(b.pos())
    } else {
        None
    }
}

pub fn expected(class: u8, buf: &[u8]) -> usize {
    buf.iter().position(|&b| !in_class(class, b)).unwrap_or(buf.len())
}

fn pseudo_lane(backend: u8, class: u8, place: Place) -> Lane {
    // journal / replay encoding of a scan: entry byte >= 100
    Lane { entry: Entry::Chunk, cfg: backend, cap: 100 + class as u32, backend: Backend::Native, place }
}

fn check(ck: &mut Checker, backend: u8, class: u8, data: &[u8], place: Place) {
    let lane = pseudo_lane(backend, class, place);
    let mut enc = lane.encode();
    enc[0] = 100 + class;
    ck.caller.slot.begin(&enc, data);
    let buf = ck.caller.inputs.place(data, place);
    let got = std::panic::catch_unwind(|| scan(backend, class, buf));
    ck.caller.slot.end();
    ck.stats.nodes += 1;
    ck.caller.calls += 1;
    let exp = expected(class, data);
    let got = match got {
        Ok(Some(g)) => g,
        Ok(None) => return,
        Err(_) => {
            report(ck, backend, class, data, place, "the scanner panicked".into(), exp);
            return;
        }
    };
    if ck.stats.samples.len() < 4 && ck.stats.nodes % 100_003 == 1 {
        ck.stats.samples.push(format!(
            "{{\"scanner\":\"{}\",\"class\":\"{}\",\"placement\":\"{:?}\",\"input\":\"{}\",\"stopped_at\":{},\"first_out_of_class\":{}}}",
            BACKEND_NAMES[backend as usize], CLASS_NAMES[class as usize], place, crate::json::esc(&printable(data)), got, exp
        ));
    }
    let i = if got == data.len() { 0 } else { 1 };
    ck.stats.outcomes[i][(got % 5).min(4)] += 1;
    if got != exp {
        report(ck, backend, class, data, place, format!("stopped at {}", got), exp);
    }
}

/// A scan entered `pre` bytes into the buffer. The journal / replay encoding carries `pre` in the
/// backend byte's high bits (backend | pre << 3, pre <= 31).
fn check_from(ck: &mut Checker, backend: u8, class: u8, data: &[u8], pre: usize, place: Place) {
    debug_assert!(pre <= 255 && pre <= data.len());
    // (`pre` travels in the capacity word of the pseudo lane: 100 + class + (pre << 8))
    let code = backend;
    let mut lane = pseudo_lane(code, class, place);
    lane.cap += (pre as u32) << 8;
    let mut enc = lane.encode();
    enc[0] = 100 + class;
    ck.caller.slot.begin(&enc, data);
    let buf = ck.caller.inputs.place(data, place);
    let got = std::panic::catch_unwind(|| scan_from(backend, class, buf, pre));
    ck.caller.slot.end();
    ck.stats.nodes += 1;
    ck.caller.calls += 1;
    let exp = pre + expected(class, &data[pre..]);
    let got = match got {
        Ok(Some(g)) => g,
        Ok(None) => return,
        Err(_) => {
            report_pre(ck, code, class, data, place, format!("the scanner panicked (entered {} bytes into the buffer)", pre), exp, pre);
            return;
        }
    };
    if got != exp {
        report_pre(ck, code, class, data, place, format!("entered {} bytes into the buffer, stopped at {}", pre, got), exp, pre);
    }
}

fn report(ck: &mut Checker, backend: u8, class: u8, data: &[u8], place: Place, got: String, exp: usize) {
    report_pre(ck, backend, class, data, place, got, exp, 0)
}

#[allow(clippy::too_many_arguments)]
fn report_pre(ck: &mut Checker, backend: u8, class: u8, data: &[u8], place: Place, got: String, exp: usize, pre: usize) {
    let mut lane = pseudo_lane(backend, class, place);
    lane.cap += (pre as u32) << 8;
    ck.relation_tag = "scan";
    ck.violation(
        format!("{} scanner for the {} class {}, first out-of-class byte (or end) is at {}", BACKEND_NAMES[(backend & 7) as usize], CLASS_NAMES[class as usize], got, exp),
        &lane, data, got, format!("stop at {}", exp), None,
    );
    ck.relation_tag = "none";
}

fn fillers(class: u8) -> [u8; 2] {
    match class {
        0 => [b'/', 0xE9],
        1 => [b'v', b'\t'],
        _ => [b'n', b'~'],
    }
}

fn backends_for(class: u8) -> Vec<u8> {
    if class == 2 {
        vec![B_SWAR, B_DISPATCH, B_NEON]
    } else {
        vec![B_SWAR, B_AVX2, B_SSE42, B_DISPATCH, B_NEON]
    }
}

pub fn add_grids(p: &mut Plan, q: bool, boundary_words: bool) {
    // the memory-safety legs (C01) use the shorter grid in the quick tier; C12 always the full one
    let lmax = if q && !boundary_words { 64usize } else { 100usize };
    let aligns: Vec<usize> = if q { vec![0, 1, 15, 31] } else { (0..32).collect() };
    let mut tasks: Vec<TaskFn> = Vec::new();
    // the class tables of the crate must be the classes of the statement
    tasks.push(Box::new(|ck: &mut Checker| {
        for b in 0..=255u8 {
            let t = [httparse::_verif::is_uri_token(b), httparse::_verif::is_header_value_token(b), httparse::_verif::is_header_name_token(b)];
            for class in 0..3u8 {
                ck.stats.nodes += 1;
                if t[class as usize] != in_class(class, b) {
                    report(ck, B_SWAR, class, &[b], Place::EndFlush, format!("class table says {} for byte {:#04x}", t[class as usize], b), if in_class(class, b) { 1 } else { 0 });
                }
            }
        }
    }));
    for class in 0..3u8 {
        for backend in backends_for(class) {
            let mut places = vec![Place::EndFlush, Place::StartFlush];
            places.extend(aligns.iter().map(|&a| Place::Mid(a)));
            places.extend([0usize, 1, 4, 7].iter().map(|&a| Place::Hostile(a)));
            places.extend([1usize, 9, 17, 33].iter().map(|&k| Place::Mid(crate::arena::PAGE - k)));
            for place in places {
                for filler in fillers(class) {
                    tasks.push(Box::new(move |ck: &mut Checker| {
                        let mut buf = Vec::with_capacity(lmax);
                        for l in 0..=lmax {
                            buf.clear();
                            buf.resize(l, filler);
                            check(ck, backend, class, &buf, place);
                            for pos in 0..l {
                                for v in 0..=255u8 {
                                    if v == filler {
                                        continue;
                                    }
                                    buf[pos] = v;
                                    check(ck, backend, class, &buf, place);
                                }
                                buf[pos] = filler;
                                if ck.full() {
                                    return;
                                }
                            }
                        }
                    }));
                }
            }
        }
    }
    p.phases.push(Phase {
        label: format!("S3: scanner grid, 5 backends × 3 classes × L≤{} × position × 256 values × 2 fillers × {} placements (end-flush, start-flush, {} mid-buffer alignments, 4 with in-class bytes around the buffer, 4 straddling a page boundary)", lmax, aligns.len() + 10, aligns.len()),
        backend: Backend::Native,
        tasks,
    });
    // long runs: unrolled loops of 64/128 bytes and their hand-over to the narrower steps
    {
        let llong: usize = if q { 300 } else { 520 };
        let mut tasks: Vec<TaskFn> = Vec::new();
        for class in 0..3u8 {
            for backend in backends_for(class) {
                for place in [Place::EndFlush, Place::StartFlush, Place::Mid(1), Place::Hostile(3)] {
                    for band in 0..4usize {
                        tasks.push(Box::new(move |ck: &mut Checker| {
                            let vals: [u8; 14] = [0x00, 0x09, 0x0a, 0x0d, 0x1f, 0x20, 0x21, b':', b'@', 0x7e, 0x7f, 0x80, 0xa0, 0xff];
                            let filler = fillers(class)[0];
                            let mut buf = Vec::with_capacity(llong);
                            for l in (lmax + 1..=llong).filter(|l| l % 4 == band) {
                                buf.clear();
                                buf.resize(l, filler);
                                check(ck, backend, class, &buf, place);
                                for pos in 0..l {
                                    for &v in &vals {
                                        if v == filler {
                                            continue;
                                        }
                                        buf[pos] = v;
                                        check(ck, backend, class, &buf, place);
                                    }
                                    buf[pos] = filler;
                                }
                                if ck.full() {
                                    return;
                                }
                            }
                        }));
                    }
                }
            }
        }
        p.phases.push(Phase { label: format!("S3: long scanner grid, 5 backends × 3 classes × L {}..={} × position × 14 boundary values × 4 placements", lmax + 1, llong), backend: Backend::Native, tasks });
        p.bounds.push(format!("S3 long grid: run lengths {}..={} with one byte of {{00,09,0A,0D,1F,20,21,':','@',7E,7F,80,A0,FF}} at every position (and none), placements end-flush / start-flush / mid+1 / in-class surroundings, every backend", lmax + 1, llong));
    }
    // pairs of offending positions (first-of-several selection)
    let mut tasks: Vec<TaskFn> = Vec::new();
    let lens: Vec<usize> = if q { vec![7, 8, 16, 17, 31, 32, 33, 64, 71, 129, 160] } else { (1..=72).chain([96, 127, 128, 129, 130, 160, 200, 257]).collect() };
    for class in 0..3u8 {
        for backend in backends_for(class) {
            let lens = lens.clone();
            tasks.push(Box::new(move |ck: &mut Checker| {
                let bad: [u8; 4] = [0x00, 0x7f, 0x1f, if class == 2 { b':' } else { b'\n' }];
                let filler = fillers(class)[0];
                let mut buf = Vec::new();
                for &l in &lens {
                    for a in 0..l {
                        for b in (a + 1)..l {
                            for &x in &bad {
                                for &y in &bad {
                                    buf.clear();
                                    buf.resize(l, filler);
                                    buf[a] = x;
                                    buf[b] = y;
                                    check(ck, backend, class, &buf, Place::EndFlush);
                                }
                            }
                        }
                    }
                    if ck.full() {
                        return;
                    }
                }
            }));
        }
    }
    p.phases.push(Phase { label: format!("S3: all pairs of offending positions, {} lengths × 4×4 offending bytes", lens.len()), backend: Backend::Native, tasks });
    // scanners entered with a cursor that is not at the start of the buffer (the value scanner
    // after the first value byte, after a fold; any scanner after earlier tokens): what lies
    // before the cursor — including line ends — must not matter, and must not be read past
    let mut tasks: Vec<TaskFn> = Vec::new();
    let prefixes: [&[u8]; 10] = [
        b"v", b"\r\n", b"a:\r\n\t", b"GET /", b"vvvvvvvvvvvvvvv\r\n", b"N: vvvvvvvvvvvvvvvvvvvvvvv\r\n \t",
        // 32 and more bytes behind the cursor (overlapping tail loads reach back that far)
        b"vvvvvvvvvvvvvvvvvvvvvvvvvvvvvv\r\n",
        b"N: vvvvvvvvvvvvvvvvvvvvvvvvvvvvvvvvvvvvvvvv\r\n \t",
        b"Set-Cookie: vvvvvvvvvvvvvvvvvvvvvvvvvvvvvvvvvvvvvvvvvvvvvvvvvvvvvvvvvvvvvvvvvvvvvvvvvvvvvvvvvvvvvvvvvvvvvvvvvvvvvv\r\n\t",
        b"GET /aaaaaaaaaaaaaaaaaaaaaaaaaaaaaaaaaaaaaaaaaaa\x00",
    ];
    for class in 0..3u8 {
        for backend in backends_for(class) {
            for place in [Place::EndFlush, Place::StartFlush, Place::Hostile(0), Place::Hostile(5)] {
                tasks.push(Box::new(move |ck: &mut Checker| {
                    let filler = fillers(class)[0];
                    let bad: [u8; 6] = [0x00, 0x7f, b' ', b'\r', b'\n', b':'];
                    let mut buf = Vec::new();
                    for pre in prefixes {
                        for l in 0..=72usize {
                            buf.clear();
                            buf.extend_from_slice(pre);
                            buf.resize(pre.len() + l, filler);
                            check_from(ck, backend, class, &buf, pre.len(), place);
                            for pos in 0..l {
                                for &v in &bad {
                                    buf[pre.len() + pos] = v;
                                    check_from(ck, backend, class, &buf, pre.len(), place);
                                }
                                buf[pre.len() + pos] = filler;
                            }
                            if ck.full() {
                                return;
                            }
                        }
                    }
                }));
            }
        }
    }
    p.phases.push(Phase { label: "S3: scanners entered 1..128 bytes into the buffer (10 prefixes incl. line ends) × L≤72 × position × 6 offending bytes × 4 placements".into(), backend: Backend::Native, tasks });
    p.bounds.push("S3 non-fresh cursor: every scanner entered after 10 different already-consumed prefixes (1..128 bytes, some containing CR LF or a NUL right behind the cursor), run length 0..=72, offending byte at every position, placements end-flush / start-flush / hostile".into());
    // every pair of byte values at adjacent positions (carries / borrows between neighbouring
    // lanes of the word-at-a-time tricks, lane shuffles of the vector scanners)
    let mut tasks: Vec<TaskFn> = Vec::new();
    let pair_lens: Vec<usize> = if q { vec![8, 16, 32, 40] } else { vec![8, 9, 16, 17, 24, 32, 33, 40, 64, 72] };
    for class in 0..3u8 {
        for backend in backends_for(class) {
            for &l in &pair_lens {
                tasks.push(Box::new(move |ck: &mut Checker| {
                    let filler = fillers(class)[0];
                    let mut buf = vec![filler; l];
                    for pos in 0..l - 1 {
                        for x in 0..=255u8 {
                            for y in 0..=255u8 {
                                buf[pos] = x;
                                buf[pos + 1] = y;
                                check(ck, backend, class, &buf, Place::EndFlush);
                            }
                        }
                        buf[pos] = filler;
                        buf[pos + 1] = filler;
                        if ck.full() {
                            return;
                        }
                    }
                }));
            }
        }
    }
    p.phases.push(Phase { label: format!("S3: all 65536 byte pairs at every adjacent position pair, lengths {:?}", pair_lens), backend: Backend::Native, tasks });
    p.bounds.push(format!("S3 adjacent pairs: every (x, y) in 256x256 at positions (i, i+1) for every i, lengths {:?}, all backends and classes", pair_lens));
    if !boundary_words {
        p.bounds.push(format!("S3: backends swar/avx2/sse4.2/dispatch/neon(emulated) x 3 classes x length 0..={} x position x 256 values x 2 fillers x placements end-flush, start-flush, mid-buffer alignments {:?}; pairs of offending positions; adjacent byte pairs", lmax, aligns));
        return;
    }
    // boundary alphabet ^8 on 8-byte buffers: drives the word-at-a-time borrow tricks
    let sigma: Vec<u8> = if q { vec![0x00, 0x09, 0x1f, 0x20, 0x21, 0x7e, 0x7f, 0x80, 0xfe, 0xff] } else { vec![0x00, 0x08, 0x09, 0x0a, 0x0d, 0x1f, 0x20, 0x21, 0x3a, 0x7e, 0x7f, 0x80, 0x81, 0xc3, 0xfe, 0xff] };
    let mut tasks: Vec<TaskFn> = Vec::new();
    for class in 0..3u8 {
        for backend in [B_SWAR, B_NEON] {
            for first in 0..sigma.len() {
                let sigma = sigma.clone();
                tasks.push(Box::new(move |ck: &mut Checker| {
                    let n = sigma.len();
                    let mut idx = [0usize; 8];
                    idx[0] = first;
                    let mut buf = [0u8; 8];
                    loop {
                        for i in 0..8 {
                            buf[i] = sigma[idx[i]];
                        }
                        check(ck, backend, class, &buf, Place::EndFlush);
                        // odometer over positions 1..8
                        let mut j = 8;
                        loop {
                            if j == 1 {
                                return;
                            }
                            j -= 1;
                            idx[j] += 1;
                            if idx[j] < n {
                                break;
                            }
                            idx[j] = 0;
                        }
                        if ck.full() {
                            return;
                        }
                    }
                }));
            }
        }
    }
    p.phases.push(Phase { label: format!("S3: boundary alphabet Σ_b({})^8 on 8-byte buffers, word-at-a-time and NEON-emulated scanners", sigma.len()), backend: Backend::Native, tasks });
    p.bounds.push(format!(
        "S3: backends swar/avx2/sse4.2/dispatch/neon(emulated) × classes target/value/name (name: swar, dispatch, neon) × length 0..={} × offending position × all 256 values × 2 fillers × placements end-flush, start-flush, mid-buffer alignments {:?}; pairs of offending positions for lengths {:?}; Σ_b({})^8",
        lmax, aligns, lens, sigma.len()
    ));
}

pub fn replay(text: &str) -> i32 {
    let code = json::get_num(text, "config").unwrap_or(0) as u8;
    let capw = json::get_num(text, "capacity").unwrap_or(100);
    let (backend, pre) = (code & 7, if capw >> 8 != 0 { (capw >> 8) as usize } else { (code >> 3) as usize });
    let class = ((capw & 0xff) - 100) as u8;
    let place = match json::get_num(text, "place").unwrap_or(0) {
        0 => Place::EndFlush,
        1 => Place::StartFlush,
        2 => Place::Mid(json::get_num(text, "place_off").unwrap_or(0) as usize),
        _ => Place::Hostile(json::get_num(text, "place_off").unwrap_or(0) as usize),
    };
    let data = json::unhex(&json::get_str(text, "input_hex").unwrap_or_default());
    let mut arena = crate::arena::Arena::new(data.len() + 8192);
    let buf = arena.place(&data, place);
    println!("replaying scan: backend={} class={} placement={:?}", BACKEND_NAMES[backend as usize], CLASS_NAMES[class as usize], place);
    println!("  input   : {} ({})", printable(&data), hex(&data));
    let got = if pre > 0 && pre <= data.len() { scan_from(backend, class, buf, pre) } else { scan(backend, class, buf) };
    let exp = if pre > 0 && pre <= data.len() { pre + expected(class, &data[pre..]) } else { expected(class, &data) };
    if pre > 0 {
        println!("  (scanner entered {} bytes into the buffer)", pre);
    }
    println!("  stopped : {:?}   expected: {}", got, exp);
    if class < 3 && data.len() == 1 {
        let b = data[0];
        let t = [httparse::_verif::is_uri_token(b), httparse::_verif::is_header_value_token(b), httparse::_verif::is_header_name_token(b)];
        if t[class as usize] != in_class(class, b) {
            println!("  VIOLATED: class table disagrees with the statement for byte {:#04x}", b);
            return 1;
        }
    }
    match got {
        Some(g) if g != exp => {
            println!("  VIOLATED: scanner does not stop at the first out-of-class byte");
            1
        }
        _ => 0,
    }
}
