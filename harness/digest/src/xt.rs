//! Cross-target leg: a small enumerated corpus and scanner grid meant to be *interpreted* (Miri) for
//! targets this host cannot run natively — 32-bit and big-endian — and compared with the native
//! run of the same program. Everything is numeric (no formatting in the hot path: the interpreter
//! is ~1000x slower than the CPU).
//!
//!   digest xrun <quick|thorough>          one line per part: "<part> <count> <full> <frame> <errkind> <hygiene-bad> <out-of-buffer> <panics>"
//!   digest xdump <quick|thorough> <part>  one line per input of a part
//!
//! Projections (each a 64-bit FNV digest over (input, projection of the result)):
//!   full     status, offset, every field and header as (offset, length), version/code, chunk size
//!   frame    Complete(n) | Partial | Err                       (C03)
//!   errkind  the Error variant, 0 if not an error               (C10)
//! Counters evaluated in this binary, on this target:
//!   hygiene-bad    Complete results whose fields break the byte classes of C05
//!   out-of-buffer  non-empty slices not inside the buffer (C04)
//!   panics         calls that panicked (C01)

use super::*;

#[derive(Clone, Copy)]
pub struct Res {
    pub st: u8, // 0 complete, 1 partial, 2.. error kinds
    pub n: u64,
    pub nums: [u32; 24],
    pub len: usize,
    pub hyg_bad: bool,
    pub oob: bool,
    pub panicked: bool,
}

impl Res {
    fn new() -> Res {
        Res { st: 0, n: 0, nums: [0; 24], len: 0, hyg_bad: false, oob: false, panicked: false }
    }
    fn push(&mut self, v: u32) {
        if self.len < self.nums.len() {
            self.nums[self.len] = v;
            self.len += 1;
        }
    }
    fn slice(&mut self, buf: &[u8], p: *const u8, len: usize) {
        if len == 0 {
            self.push(u32::MAX);
            self.push(0);
            return;
        }
        let o = (p as usize).wrapping_sub(buf.as_ptr() as usize);
        if o > buf.len() || o + len > buf.len() {
            self.oob = true;
            self.push(u32::MAX - 1);
        } else {
            self.push(o as u32);
        }
        self.push(len as u32);
    }
}

fn err_code(e: httparse::Error) -> u8 {
    match e {
        httparse::Error::HeaderName => 2,
        httparse::Error::HeaderValue => 3,
        httparse::Error::NewLine => 4,
        httparse::Error::Status => 5,
        httparse::Error::Token => 6,
        httparse::Error::TooManyHeaders => 7,
        httparse::Error::Version => 8,
    }
}

fn tchar(b: u8) -> bool {
    b.is_ascii_alphanumeric() || b"!#$%&'*+-.^_`|~".contains(&b)
}

/// C05 on a Complete result (written from the statement).
fn hygiene(cfg: u8, head: &[u8], method: Option<&str>, path: Option<&str>, reason: Option<&str>, headers: &[Header<'_>]) -> bool {
    let mut ok = true;
    if let Some(m) = method {
        ok &= !m.is_empty() && m.bytes().all(tchar);
    }
    if let Some(p) = path {
        ok &= !p.is_empty() && p.bytes().all(|b| (0x21..=0x7e).contains(&b) || b >= 0x80);
    }
    if let Some(r) = reason {
        ok &= r.bytes().all(|b| b == 9 || (0x20..=0x7e).contains(&b));
    }
    let folding = cfg & 2 != 0;
    for h in headers {
        ok &= !h.name.is_empty() && h.name.bytes().all(tchar);
        let v = h.value;
        if let (Some(&a), Some(&z)) = (v.first(), v.last()) {
            ok &= a != b' ' && a != 9 && z != b' ' && z != 9;
        }
        let mut i = 0;
        while i < v.len() {
            let b = v[i];
            if b == 9 || (0x20..=0x7e).contains(&b) || b >= 0x80 {
                i += 1;
            } else if folding && b == b'\n' && i + 1 < v.len() && (v[i + 1] == b' ' || v[i + 1] == 9) {
                i += 1;
            } else if folding && b == b'\r' && i + 2 < v.len() && v[i + 1] == b'\n' && (v[i + 2] == b' ' || v[i + 2] == 9) {
                i += 2;
            } else {
                ok = false;
                break;
            }
        }
    }
    for (i, &b) in head.iter().enumerate() {
        if b == 0 || (b == b'\r' && head.get(i + 1) != Some(&b'\n')) {
            ok = false;
        }
    }
    ok
}

fn call_num_inner(entry: Entry, cfg: u8, cap: usize, buf: &[u8]) -> Res {
    let c = make_config(cfg);
    let mut store = [EMPTY_HEADER; 8];
    let arr = &mut store[..cap.min(8)];
    let mut r = Res::new();
    match entry {
        Entry::Req => {
            let mut q = Request::new(arr);
            match c.parse_request(&mut q, buf) {
                Ok(Status::Complete(n)) => {
                    r.st = 0;
                    r.n = n as u64;
                    r.hyg_bad = n > buf.len() || !hygiene(cfg, &buf[..n.min(buf.len())], q.method, q.path, None, q.headers);
                }
                Ok(Status::Partial) => r.st = 1,
                Err(e) => r.st = err_code(e),
            }
            if r.st < 2 {
                match q.method {
                    Some(m) => r.slice(buf, m.as_ptr(), m.len()),
                    None => r.push(7777),
                }
                match q.path {
                    Some(m) => r.slice(buf, m.as_ptr(), m.len()),
                    None => r.push(7777),
                }
                r.push(q.version.map_or(99, |v| v as u32));
            }
            if r.st == 0 {
                r.push(q.headers.len() as u32);
                for h in q.headers.iter() {
                    r.slice(buf, h.name.as_ptr(), h.name.len());
                    r.slice(buf, h.value.as_ptr(), h.value.len());
                }
            }
        }
        Entry::Resp => {
            let mut q = Response::new(arr);
            match c.parse_response(&mut q, buf) {
                Ok(Status::Complete(n)) => {
                    r.st = 0;
                    r.n = n as u64;
                    r.hyg_bad = n > buf.len() || !hygiene(cfg, &buf[..n.min(buf.len())], None, None, q.reason, q.headers);
                }
                Ok(Status::Partial) => r.st = 1,
                Err(e) => r.st = err_code(e),
            }
            if r.st < 2 {
                r.push(q.version.map_or(99, |v| v as u32));
                r.push(q.code.map_or(9999, |v| v as u32));
                match q.reason {
                    Some(m) => r.slice(buf, m.as_ptr(), m.len()),
                    None => r.push(7777),
                }
            }
            if r.st == 0 {
                r.push(q.headers.len() as u32);
                for h in q.headers.iter() {
                    r.slice(buf, h.name.as_ptr(), h.name.len());
                    r.slice(buf, h.value.as_ptr(), h.value.len());
                }
            }
        }
        Entry::Headers => match httparse::parse_headers(buf, arr) {
            Ok(Status::Complete((n, hs))) => {
                r.st = 0;
                r.n = n as u64;
                r.hyg_bad = n > buf.len() || !hygiene(cfg, &buf[..n.min(buf.len())], None, None, None, hs);
                r.push(hs.len() as u32);
                for h in hs.iter() {
                    r.slice(buf, h.name.as_ptr(), h.name.len());
                    r.slice(buf, h.value.as_ptr(), h.value.len());
                }
            }
            Ok(Status::Partial) => r.st = 1,
            Err(e) => r.st = err_code(e),
        },
        Entry::Chunk => match httparse::parse_chunk_size(buf) {
            Ok(Status::Complete((n, s))) => {
                r.st = 0;
                r.n = n as u64;
                r.push((s >> 32) as u32);
                r.push(s as u32);
            }
            Ok(Status::Partial) => r.st = 1,
            Err(_) => r.st = 9,
        },
    }
    r
}

pub fn call_num(entry: Entry, cfg: u8, cap: usize, buf: &[u8]) -> Res {
    match std::panic::catch_unwind(|| call_num_inner(entry, cfg, cap, buf)) {
        Ok(r) => r,
        Err(_) => {
            let mut r = Res::new();
            r.st = 255;
            r.panicked = true;
            r
        }
    }
}

fn mix(h: &mut u64, v: u64) {
    *h ^= v;
    *h = h.wrapping_mul(0x100000001b3);
    *h = h.rotate_left(29);
}

fn mix_bytes(h: &mut u64, s: &[u8]) {
    // eight bytes at a time (this loop runs in the interpreter too)
    let mut it = s.chunks_exact(8);
    for c in &mut it {
        mix(h, u64::from_le_bytes([c[0], c[1], c[2], c[3], c[4], c[5], c[6], c[7]]));
    }
    let mut last = s.len() as u64;
    for &b in it.remainder() {
        last = (last << 8) | b as u64;
    }
    mix(h, last);
}

pub const PART_NAMES: [&str; 8] = ["request-fields", "reason-field", "header-fields", "header-strings-default", "header-strings-options", "request-lines", "status-lines", "chunk-sizes"];

const XV: [u8; 8] = [0x00, 0x0d, 0x1f, 0x20, 0x21, 0x7f, 0x80, 0xff];

fn field_sweep(f: &Field, lens: &[usize], vals: &[u8], sink: Sink<'_>) {
    let mut buf = Vec::new();
    for &l in lens {
        buf.clear();
        buf.extend_from_slice(f.pre);
        buf.extend(std::iter::repeat(f.fill).take(l));
        buf.extend_from_slice(f.post);
        sink(f.entry, f.cfg, 2, &buf);
        for pos in 0..l {
            for &v in vals {
                buf[f.pre.len() + pos] = v;
                sink(f.entry, f.cfg, 2, &buf);
            }
            buf[f.pre.len() + pos] = f.fill;
        }
    }
}

/// Two cooperating neighbours inside one machine word (borrows and carries between byte lanes).
fn pair_sweep(f: &Field, l: usize, sink: Sink<'_>) {
    let xs: [u8; 5] = [b'!', 0x20, 0x7e, 0xa0, 0xff];
    let ys: [u8; 5] = [0x00, 0x1f, 0x20, 0x7f, 0x0a];
    let mut buf = Vec::new();
    buf.extend_from_slice(f.pre);
    buf.extend(std::iter::repeat(f.fill).take(l));
    buf.extend_from_slice(f.post);
    for pos in 0..l - 1 {
        for &x in &xs {
            for &y in &ys {
                buf[f.pre.len() + pos] = x;
                buf[f.pre.len() + pos + 1] = y;
                sink(f.entry, f.cfg, 2, &buf);
                buf[f.pre.len() + pos] = y;
                buf[f.pre.len() + pos + 1] = x;
                sink(f.entry, f.cfg, 2, &buf);
            }
        }
        buf[f.pre.len() + pos] = f.fill;
        buf[f.pre.len() + pos + 1] = f.fill;
    }
}

/// A few long fields (two and four 64-bit words past a 128-byte stride) with an offender near the
/// start, the middle and the end.
fn long_sweep(f: &Field, sink: Sink<'_>) {
    let mut buf = Vec::new();
    for l in [70usize, 131, 257] {
        buf.clear();
        buf.extend_from_slice(f.pre);
        buf.extend(std::iter::repeat(f.fill).take(l));
        buf.extend_from_slice(f.post);
        sink(f.entry, f.cfg, 2, &buf);
        for pos in [0usize, 1, 7, l / 2, l - 9, l - 8, l - 2, l - 1] {
            for v in [0x00u8, 0x20, 0x7f, 0xff] {
                buf[f.pre.len() + pos] = v;
                sink(f.entry, f.cfg, 2, &buf);
            }
            buf[f.pre.len() + pos] = f.fill;
        }
    }
}

pub fn xpart(p: usize, thorough: bool, sink: Sink<'_>) {
    let lens: &[usize] = if thorough { &[0, 1, 2, 3, 4, 5, 6, 7, 8, 9, 10, 11, 12, 13, 15, 16, 17, 19] } else { &[0, 1, 3, 4, 5, 7, 8, 9, 12] };
    let vals: &[u8] = if thorough { &MINI_VALS } else { &XV };
    let depth = if thorough { 3 } else { 2 };
    match p {
        0 => {
            field_sweep(&FIELDS[0], lens, vals, sink);
            field_sweep(&FIELDS[1], lens, vals, sink);
            pair_sweep(&FIELDS[1], 9, sink);
            long_sweep(&FIELDS[1], sink);
            // the target ends right before / after a word boundary, delimiter variants
            for l in 1..=9usize {
                for tail in [&b" HTTP/1.1\r\n\r\n"[..], b"! HTTP/1.1\r\n\r\n", b"!\x00", b"~ HTTP/1.0\n\n"] {
                    let mut b = b"GET ".to_vec();
                    b.extend(std::iter::repeat(b'/').take(l));
                    b.extend_from_slice(tail);
                    sink(Entry::Req, 0, 2, &b);
                }
            }
        }
        1 => {
            field_sweep(&FIELDS[6], lens, vals, sink);
            pair_sweep(&FIELDS[6], 9, sink);
        }
        2 => {
            for i in [2usize, 3, 4, 5] {
                field_sweep(&FIELDS[i], lens, vals, sink);
            }
            pair_sweep(&FIELDS[4], 9, sink);
            pair_sweep(&FIELDS[2], 9, sink);
            long_sweep(&FIELDS[4], sink);
            long_sweep(&FIELDS[2], sink);
        }
        3 => {
            for k in [1usize, 5] {
                let alpha = header_alphabet(k);
                strings(&alpha, depth, b"GET / HTTP/1.1\r\n", &mut |b| sink(Entry::Req, 0, 2, b));
                strings(&alpha, depth, b"HTTP/1.1 200 OK\r\n", &mut |b| sink(Entry::Resp, 0, 2, b));
                strings(&alpha, depth, b"", &mut |b| sink(Entry::Headers, 0, 1, b));
            }
        }
        4 => {
            for k in [1usize, 5] {
                let alpha = header_alphabet(k);
                strings(&alpha, depth, b"GET / HTTP/1.1\r\n", &mut |b| sink(Entry::Req, 16 | 64, 2, b));
                strings(&alpha, depth, b"HTTP/1.1 200 OK\r\n", &mut |b| sink(Entry::Resp, 1 | 2 | 16 | 32, 2, b));
            }
        }
        5 => {
            let alpha = line_alphabet(5);
            for ctx in [&b""[..], b"GET ", b"GET / ", b"GET / HTTP/1.", b"POS", b"\r\n"] {
                for cfg in [0u8, 4] {
                    strings(&alpha, depth - 1, ctx, &mut |b| sink(Entry::Req, cfg, 2, b));
                }
            }
        }
        6 => {
            let alpha = line_alphabet(5);
            for ctx in [&b""[..], b"HTTP/1.1", b"HTTP/1.1 ", b"HTTP/1.1 200", b"HTTP/1.1 200 ", b"\n"] {
                for cfg in [0u8, 8] {
                    strings(&alpha, depth - 1, ctx, &mut |b| sink(Entry::Resp, cfg, 2, b));
                }
            }
        }
        _ => {
            field_sweep(&FIELDS[7], lens, vals, sink);
            let terms: [&[u8]; 4] = [b"\r\n", b"", b";x\r\n", b"g\r\n"];
            for n in 0..=18usize {
                for lead in [b'1', b'8', b'f', b'F'] {
                    let mut v = vec![b'0'; n];
                    if n > 0 {
                        v[0] = lead;
                        v[n - 1] = b'9';
                    }
                    for t in terms {
                        let mut b = v.clone();
                        b.extend_from_slice(t);
                        sink(Entry::Chunk, 0, 0, &b);
                    }
                }
            }
            let alpha: Vec<Vec<u8>> = [&b"0"[..], b"9", b"a", b"F", b"g", b" ", b"\t", b";", b"\r", b"\n", b"\0", b"\x80"].iter().map(|s| s.to_vec()).collect();
            for n in [0usize, 7, 8, 9, 15, 16] {
                strings(&alpha, depth - 1, &vec![b'a'; n], &mut |b| sink(Entry::Chunk, 0, 0, b));
            }
        }
    }
}

pub fn xrun(thorough: bool, only: Option<usize>, shard: usize, nshards: usize) {
    for p in 0..PART_NAMES.len() {
        if only.map_or(false, |o| o != p) {
            continue;
        }
        let (mut full, mut frame, mut errk) = (0xcbf29ce484222325u64, 0xcbf29ce484222325u64, 0xcbf29ce484222325u64);
        let (mut n, mut hyg, mut oob, mut pan) = (0u64, 0u64, 0u64, 0u64);
        let mut idx = 0usize;
        xpart(p, thorough, &mut |e, cfg, cap, b| {
            idx += 1;
            if (idx - 1) % nshards != shard {
                return;
            }
            let r = call_num(e, cfg, cap, b);
            n += 1;
            hyg += r.hyg_bad as u64;
            oob += r.oob as u64;
            pan += r.panicked as u64;
            mix_bytes(&mut full, b);
            mix(&mut full, ((r.st as u64) << 56) ^ r.n);
            for i in 0..r.len {
                mix(&mut full, r.nums[i] as u64);
            }
            mix_bytes(&mut frame, b);
            mix(&mut frame, match r.st { 0 => 1 + r.n, 1 => 0, _ => u64::MAX });
            mix_bytes(&mut errk, b);
            mix(&mut errk, if r.st >= 2 { r.st as u64 } else { 0 });
        });
        println!("{} {} {:016x} {:016x} {:016x} {} {} {}", PART_NAMES[p], n, full, frame, errk, hyg, oob, pan);
    }
    println!("target pointer-width {} endian {}", usize::BITS, if cfg!(target_endian = "big") { "big" } else { "little" });
}

/// Number of inputs of every part (for sharding).
pub fn xsizes(thorough: bool) {
    for p in 0..PART_NAMES.len() {
        let mut n = 0u64;
        xpart(p, thorough, &mut |_, _, _, _| n += 1);
        println!("{} {} {}", p, PART_NAMES[p], n);
    }
}

pub fn xdump(thorough: bool, part: usize, shard: usize, nshards: usize) {
    let out = std::io::stdout();
    let mut lock = std::io::BufWriter::new(out.lock());
    use std::io::Write;
    let mut idx = 0usize;
    xpart(part, thorough, &mut |e, cfg, cap, b| {
        idx += 1;
        if (idx - 1) % nshards != shard {
            return;
        }
        let r = call_num(e, cfg, cap, b);
        let frame = match r.st { 0 => format!("C{}", r.n), 1 => "P".into(), 255 => "PANIC".into(), _ => "E".to_string() };
        writeln!(lock, "{:?} {} {} {} st={} n={} fields={:?} frame={} errkind={} hygiene_bad={} out_of_buffer={}", e, cfg, cap, hex(b), r.st, r.n, &r.nums[..r.len], frame, if r.st >= 2 { r.st } else { 0 }, r.hyg_bad as u8, r.oob as u8).unwrap();
    });
}

pub fn xone(entry: Entry, cfg: u8, cap: usize, b: &[u8]) {
    let r = call_num(entry, cfg, cap, b);
    let frame = match r.st { 0 => format!("C{}", r.n), 1 => "P".into(), 255 => "PANIC".into(), _ => "E".to_string() };
    println!("{:?} {} {} {} st={} n={} fields={:?} frame={} errkind={} hygiene_bad={} out_of_buffer={}", entry, cfg, cap, hex(b), r.st, r.n, &r.nums[..r.len], frame, if r.st >= 2 { r.st } else { 0 }, r.hyg_bad as u8, r.oob as u8);
}
