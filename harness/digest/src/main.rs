//! digest — the same deterministic corpus parsed by whatever build variant this binary was compiled
//! as; prints one 64-bit digest per corpus partition (status, offset, every field and header as
//! offset ranges, chunk size), so that build variants can be compared with each other (C13, C09).
//!
//!   digest run [--backend avx2|sse42|scalar|native]     one line per partition: "<id> <count> <hex>"
//!   digest dump <partition> [--backend ..]              one line per input: "<input hex> <result>"
//!   digest one <entry> <cfg> <cap> <input hex>          result of a single call
//!   digest work <family> <size>                         one parse of a size-family input (for cachegrind)
//!
//! Depends on nothing but httparse. The H2 hook is used only to force a runtime backend.

use httparse::{Header, ParserConfig, Request, Response, Status, EMPTY_HEADER};

mod xt;

fn make_config(bits: u8) -> ParserConfig {
    let mut c = ParserConfig::default();
    c.allow_spaces_after_header_name_in_responses(bits & 1 != 0);
    c.allow_obsolete_multiline_headers_in_responses(bits & 2 != 0);
    c.allow_multiple_spaces_in_request_line_delimiters(bits & 4 != 0);
    c.allow_multiple_spaces_in_response_status_delimiters(bits & 8 != 0);
    c.allow_space_before_first_header_name(bits & 16 != 0);
    c.ignore_invalid_headers_in_responses(bits & 32 != 0);
    c.ignore_invalid_headers_in_requests(bits & 64 != 0);
    c
}

#[derive(Clone, Copy, PartialEq, Eq, Debug)]
enum Entry {
    Req,
    Resp,
    Headers,
    Chunk,
}

fn off(buf: &[u8], p: *const u8, len: usize) -> String {
    if len == 0 {
        return "e".into();
    }
    let o = (p as usize).wrapping_sub(buf.as_ptr() as usize);
    if o <= buf.len() {
        format!("{}+{}", o, len)
    } else {
        format!("out+{}", len)
    }
}

fn hdrs(buf: &[u8], h: &[Header<'_>]) -> String {
    let mut s = format!("h{}", h.len());
    for x in h {
        s.push_str(&format!(" {}:{}", off(buf, x.name.as_ptr(), x.name.len()), off(buf, x.value.as_ptr(), x.value.len())));
    }
    s
}

fn call(entry: Entry, cfg: u8, cap: usize, buf: &[u8]) -> String {
    // a panic (e.g. an arithmetic overflow that only exists in the dev profile) is a result too
    match std::panic::catch_unwind(|| call_inner(entry, cfg, cap, buf)) {
        Ok(s) => s,
        Err(_) => "PANIC".to_string(),
    }
}

fn call_inner(entry: Entry, cfg: u8, cap: usize, buf: &[u8]) -> String {
    let c = make_config(cfg);
    let mut arr = vec![EMPTY_HEADER; cap];
    match entry {
        Entry::Req => {
            let mut r = Request::new(&mut arr);
            match c.parse_request(&mut r, buf) {
                Ok(Status::Complete(n)) => format!(
                    "C{} m{} p{} v{:?} {}",
                    n,
                    r.method.map_or("-".into(), |m| off(buf, m.as_ptr(), m.len())),
                    r.path.map_or("-".into(), |m| off(buf, m.as_ptr(), m.len())),
                    r.version,
                    hdrs(buf, r.headers)
                ),
                Ok(Status::Partial) => format!("P m{} p{} v{:?}", r.method.map_or("-".into(), |m| off(buf, m.as_ptr(), m.len())), r.path.map_or("-".into(), |m| off(buf, m.as_ptr(), m.len())), r.version),
                Err(e) => format!("E{:?}", e),
            }
        }
        Entry::Resp => {
            let mut r = Response::new(&mut arr);
            match c.parse_response(&mut r, buf) {
                Ok(Status::Complete(n)) => format!("C{} v{:?} c{:?} r{} {}", n, r.version, r.code, r.reason.map_or("-".into(), |m| off(buf, m.as_ptr(), m.len())), hdrs(buf, r.headers)),
                Ok(Status::Partial) => format!("P v{:?} c{:?} r{}", r.version, r.code, r.reason.map_or("-".into(), |m| off(buf, m.as_ptr(), m.len()))),
                Err(e) => format!("E{:?}", e),
            }
        }
        Entry::Headers => match httparse::parse_headers(buf, &mut arr) {
            Ok(Status::Complete((n, h))) => format!("C{} {}", n, hdrs(buf, h)),
            Ok(Status::Partial) => "P".into(),
            Err(e) => format!("E{:?}", e),
        },
        Entry::Chunk => match httparse::parse_chunk_size(buf) {
            Ok(Status::Complete((n, s))) => format!("C{} s{}", n, s),
            Ok(Status::Partial) => "P".into(),
            Err(_) => "Echunk".into(),
        },
    }
}

fn fnv(h: &mut u64, s: &[u8]) {
    for &b in s {
        *h ^= b as u64;
        *h = h.wrapping_mul(0x100000001b3);
    }
    *h = h.rotate_left(23) ^ 0x9E3779B97F4A7C15;
}

type Sink<'a> = &'a mut dyn FnMut(Entry, u8, usize, &[u8]);

fn strings(alpha: &[Vec<u8>], depth: usize, pre: &[u8], f: &mut dyn FnMut(&[u8])) {
    let n = alpha.len();
    for d in 0..=depth {
        let mut idx = vec![0usize; d];
        let mut buf = Vec::new();
        'outer: loop {
            buf.clear();
            buf.extend_from_slice(pre);
            for &i in &idx {
                buf.extend_from_slice(&alpha[i]);
            }
            f(&buf);
            let mut j = d;
            loop {
                if j == 0 {
                    break 'outer;
                }
                j -= 1;
                idx[j] += 1;
                if idx[j] < n {
                    break;
                }
                idx[j] = 0;
            }
        }
    }
}

fn header_alphabet(k: usize) -> Vec<Vec<u8>> {
    vec![vec![b'a'; k], b":".to_vec(), b" ".to_vec(), b"\t".to_vec(), b"\r".to_vec(), b"\n".to_vec(), b"\0".to_vec(), b"\x01".to_vec(), b"\x7f".to_vec(), b"\x80".to_vec(), b"(".to_vec()]
}

fn line_alphabet(k: usize) -> Vec<Vec<u8>> {
    let mut v: Vec<Vec<u8>> = [&b"G"[..], b" ", b"H", b"T", b"P", b"1", b".", b"0", b"2", b"\r", b"\n", b"\t", b"\0", b"\x7f", b"\x80", b"\xc3\xa9", b"(", b":"].iter().map(|s| s.to_vec()).collect();
    v.push(vec![b'/'; k]);
    v.push(vec![b'O'; k]);
    v
}

struct Field {
    entry: Entry,
    cfg: u8,
    pre: &'static [u8],
    post: &'static [u8],
    fill: u8,
}

const FIELDS: [Field; 8] = [
    Field { entry: Entry::Req, cfg: 0, pre: b"", post: b" / HTTP/1.1\r\n\r\n", fill: b'A' },
    Field { entry: Entry::Req, cfg: 0, pre: b"GET ", post: b" HTTP/1.1\r\n\r\n", fill: b'/' },
    Field { entry: Entry::Req, cfg: 0, pre: b"GET / HTTP/1.1\r\n", post: b": v\r\n\r\n", fill: b'n' },
    Field { entry: Entry::Headers, cfg: 0, pre: b"", post: b":v\n\n", fill: b'N' },
    Field { entry: Entry::Resp, cfg: 0, pre: b"HTTP/1.1 200 OK\r\nN: ", post: b"\r\n\r\n", fill: b'v' },
    Field { entry: Entry::Resp, cfg: 2 | 32, pre: b"HTTP/1.1 200 OK\r\nN:", post: b"\n\n", fill: b'w' },
    Field { entry: Entry::Resp, cfg: 0, pre: b"HTTP/1.1 200 ", post: b"\r\n\r\n", fill: b'r' },
    Field { entry: Entry::Chunk, cfg: 0, pre: b"1;", post: b"\r\n", fill: b'e' },
];

const NPART: usize = 8 + 6 + 4 + 2;

/// Enumerates partition `p` of the shared corpus.
fn partition(p: usize, sink: Sink<'_>) {
    if p < 8 {
        // S2(b): lane-phase sweep of one field
        let f = &FIELDS[p];
        let mut buf = Vec::new();
        for l in 0..=70usize {
            buf.clear();
            buf.extend_from_slice(f.pre);
            buf.extend(std::iter::repeat(f.fill).take(l));
            buf.extend_from_slice(f.post);
            sink(f.entry, f.cfg, 2, &buf);
            for pos in 0..l {
                for v in 0..=255u8 {
                    if v != f.fill {
                        buf[f.pre.len() + pos] = v;
                        sink(f.entry, f.cfg, 2, &buf);
                    }
                }
                buf[f.pre.len() + pos] = f.fill;
            }
        }
    } else if p < 14 {
        // header strings Σ^≤4 with the run symbol stretched, in request and response heads
        let k = [1usize, 17, 33][(p - 8) % 3];
        let (entry, pre, cfgs): (Entry, &[u8], &[u8]) = if p - 8 < 3 { (Entry::Req, b"GET / HTTP/1.1\r\n", &[0, 16 | 64]) } else { (Entry::Resp, b"HTTP/1.1 200 OK\r\n", &[0, 1 | 2, 16 | 32, 1 | 2 | 16 | 32]) };
        let alpha = header_alphabet(k);
        for &cfg in cfgs {
            for cap in [1usize, 4] {
                strings(&alpha, 4, pre, &mut |b| sink(entry, cfg, cap, b));
            }
        }
    } else if p < 18 {
        // start lines Σ^≤3 after a few contexts
        let k = [1usize, 33][(p - 14) % 2];
        let alpha = line_alphabet(k);
        if p - 14 < 2 {
            for ctx in [&b""[..], b"GET ", b"GET / ", b"GET / HTTP/1.", b"POS", b"\r\n"] {
                for cfg in [0u8, 4] {
                    strings(&alpha, 3, ctx, &mut |b| sink(Entry::Req, cfg, 2, b));
                }
            }
        } else {
            for ctx in [&b""[..], b"HTTP/1.1", b"HTTP/1.1 ", b"HTTP/1.1 200", b"HTTP/1.1 200 ", b"\n"] {
                for cfg in [0u8, 8] {
                    strings(&alpha, 3, ctx, &mut |b| sink(Entry::Resp, cfg, 2, b));
                }
            }
        }
    } else if p == 18 {
        // chunk sizes: Σ^≤4 after 0 / 14 / 15 / 16 / 17 digits
        let alpha: Vec<Vec<u8>> = [&b"0"[..], b"9", b"a", b"f", b"A", b"F", b"g", b" ", b"\t", b";", b"\r", b"\n", b"\0", b"\x80"].iter().map(|s| s.to_vec()).collect();
        for n in [0usize, 14, 15, 16, 17] {
            for d in [b'f', b'0', b'8'] {
                let mut pre = vec![d; n];
                if n > 0 && d == b'0' {
                    pre[n - 1] = b'f';
                }
                strings(&alpha, 4, &pre, &mut |b| sink(Entry::Chunk, 0, 0, b));
            }
        }
    } else {
        // chunk digit counts 0..=20 × boundary patterns × terminators
        let terms: [&[u8]; 6] = [b"\r\n", b"\n", b"", b" \r\n", b";x\r\n", b"g\r\n"];
        for n in 0..=20usize {
            for lead in [b'0', b'1', b'7', b'8', b'f', b'F'] {
                for rest in [b'0', b'f', b'9'] {
                    let mut v = vec![rest; n];
                    if n > 0 {
                        v[0] = lead;
                    }
                    for t in terms {
                        let mut b = v.clone();
                        b.extend_from_slice(t);
                        sink(Entry::Chunk, 0, 0, &b);
                    }
                }
            }
        }
    }
}


// ---------------------------------------------------------------------------------------------
// Reduced corpus for interpreted runs on other targets (Miri: 32-bit, big-endian): the same
// generators as `partition`, smaller parameters. 5 parts.
const MINI_PARTS: usize = 5;
const MINI_VALS: [u8; 18] = [0, 9, 10, 13, 0x1f, 0x20, 0x21, b':', b'(', b'A', b'z', 0x7e, 0x7f, 0x80, 0xc3, 0xa9, 0xf4, 0xff];

fn mini_partition(p: usize, sink: Sink<'_>) {
    match p {
        0 => {
            // lane-phase sweep of every field, lengths over two 64-bit words plus a tail
            for f in FIELDS.iter() {
                let mut buf = Vec::new();
                for l in 0..=19usize {
                    buf.clear();
                    buf.extend_from_slice(f.pre);
                    buf.extend(std::iter::repeat(f.fill).take(l));
                    buf.extend_from_slice(f.post);
                    sink(f.entry, f.cfg, 2, &buf);
                    for pos in 0..l {
                        for &v in MINI_VALS.iter() {
                            buf[f.pre.len() + pos] = v;
                            sink(f.entry, f.cfg, 2, &buf);
                        }
                        buf[f.pre.len() + pos] = f.fill;
                    }
                }
            }
        }
        1 => {
            for k in [1usize, 9] {
                let alpha = header_alphabet(k);
                strings(&alpha, 3, b"GET / HTTP/1.1\r\n", &mut |b| sink(Entry::Req, 0, 2, b));
                strings(&alpha, 3, b"GET / HTTP/1.1\r\n", &mut |b| sink(Entry::Req, 16 | 64, 2, b));
                strings(&alpha, 3, b"HTTP/1.1 200 OK\r\n", &mut |b| sink(Entry::Resp, 0, 2, b));
                strings(&alpha, 3, b"HTTP/1.1 200 OK\r\n", &mut |b| sink(Entry::Resp, 1 | 2 | 16 | 32, 2, b));
                strings(&alpha, 3, b"", &mut |b| sink(Entry::Headers, 0, 1, b));
            }
        }
        2 => {
            let alpha = line_alphabet(5);
            for ctx in [&b""[..], b"GET ", b"GET / ", b"GET / HTTP/1.", b"POS", b"\r\n"] {
                for cfg in [0u8, 4] {
                    strings(&alpha, 2, ctx, &mut |b| sink(Entry::Req, cfg, 2, b));
                }
            }
            for ctx in [&b""[..], b"HTTP/1.1", b"HTTP/1.1 ", b"HTTP/1.1 200", b"HTTP/1.1 200 ", b"\n"] {
                for cfg in [0u8, 8] {
                    strings(&alpha, 2, ctx, &mut |b| sink(Entry::Resp, cfg, 2, b));
                }
            }
        }
        3 => {
            let alpha: Vec<Vec<u8>> = [&b"0"[..], b"9", b"a", b"f", b"A", b"F", b"g", b" ", b"\t", b";", b"\r", b"\n", b"\0", b"\x80"].iter().map(|s| s.to_vec()).collect();
            for n in [0usize, 7, 8, 9, 15, 16, 17] {
                for d in [b'f', b'8'] {
                    let pre = vec![d; n];
                    strings(&alpha, 2, &pre, &mut |b| sink(Entry::Chunk, 0, 0, b));
                }
            }
        }
        _ => partition(NPART - 1, sink),
    }
}

fn in_class(class: u8, b: u8) -> bool {
    // written from the statement of C12
    match class {
        0 => (0x21..=0x7e).contains(&b) || b >= 0x80,
        1 => b == 9 || (0x20..=0x7e).contains(&b) || b >= 0x80,
        _ => b.is_ascii_alphanumeric() || b"!#$%&'*+-.^_`|~".contains(&b),
    }
}

/// Scanner grid for the word-at-a-time scanners and whatever the build dispatches to, on this
/// target: (a) every string of length <= k over a 5-symbol boundary alphabet of the class,
/// (b) one offender of 12 values at every position of every length <= lmax; both at every start
/// offset 0..8 of an 8-aligned array. Prints violations and "scangrid <executions> <violations>".
#[cfg(httparse_verif)]
fn scangrid(k: usize, lmax: usize, only_class: Option<u8>, small: bool) -> (u64, u64) {
    use httparse::_benchable::Bytes;
    use httparse::_verif::{scan, BACKEND_DISPATCH, BACKEND_SWAR};
    #[repr(align(8))]
    struct Arena([u8; 160]);
    let mut arena = Arena([0x41; 160]);
    let mut runs = 0u64;
    let mut bad = 0u64;
    let check = |arena: &Arena, a: usize, len: usize, class: u8, runs: &mut u64, bad: &mut u64| {
        let s = &arena.0[a..a + len];
        let want = s.iter().position(|&b| !in_class(class, b)).unwrap_or(len);
        for backend in [BACKEND_SWAR, BACKEND_DISPATCH] {
            let mut by = Bytes::new(s);
            if !scan(backend, class, &mut by) {
                continue;
            }
            *runs += 1;
            let got = by.pos();
            if got != want {
                *bad += 1;
                if *bad <= 20 {
                    println!("SCAN class {} backend {} offset {} input {} stopped at {} expected {}", class, backend, a, hex(s), got, want);
                }
            }
        }
    };
    for class in 0..3u8 {
        if only_class.map_or(false, |c| c != class) {
            continue;
        }
        let alpha: [u8; 5] = match class {
            0 => [b'a', 0x21, 0x20, 0x7f, 0xff],
            1 => [b'a', 0x20, 0x09, 0x1f, 0x7f],
            _ => [b'a', b'~', b':', 0x80, b' '],
        };
        for a in [0usize, 1, 3] {
            for len in 0..=k {
                let mut idx = vec![0usize; len];
                'outer: loop {
                    for (j, &i) in idx.iter().enumerate() {
                        arena.0[a + j] = alpha[i];
                    }
                    check(&arena, a, len, class, &mut runs, &mut bad);
                    let mut j = len;
                    loop {
                        if j == 0 {
                            break 'outer;
                        }
                        j -= 1;
                        idx[j] += 1;
                        if idx[j] < alpha.len() {
                            break;
                        }
                        idx[j] = 0;
                    }
                }
            }
        }
        let fill = b'a';
        let vals: &[u8] = if small { &[0, 9, 0x1f, 0x20, 0x7f, 0xff] } else { &[0, 9, 10, 13, 0x1f, 0x20, 0x21, b':', 0x7e, 0x7f, 0x80, 0xff] };
        let offs: &[usize] = if small { &[0, 1, 3] } else { &[0, 1, 2, 3, 4, 5, 6, 7] };
        for &a in offs {
            for len in 0..=lmax {
                for j in 0..len {
                    arena.0[a + j] = fill;
                }
                check(&arena, a, len, class, &mut runs, &mut bad);
                for pos in 0..len {
                    for &v in vals.iter() {
                        arena.0[a + pos] = v;
                        check(&arena, a, len, class, &mut runs, &mut bad);
                    }
                    arena.0[a + pos] = fill;
                }
            }
        }
    }
    (runs, bad)
}

fn force(backend: &str) {
    #[cfg(httparse_verif)]
    {
        let which = match backend {
            "avx2" => 0,
            "sse42" => 1,
            "scalar" => 2,
            _ => return,
        };
        let id = match httparse::_verif::runtime_backend_ids() {
            Some(ids) => ids[which],
            None => {
                eprintln!("this build variant has no runtime dispatch");
                std::process::exit(3);
            }
        };
        #[cfg(any(target_arch = "x86", target_arch = "x86_64"))]
        if which == 0 && !std::is_x86_feature_detected!("avx2") || which == 1 && !std::is_x86_feature_detected!("sse4.2") {
            eprintln!("backend {} is not supported by this CPU", backend);
            std::process::exit(3);
        }
        if !httparse::_verif::set_runtime_feature(id) {
            eprintln!("this build variant has no runtime dispatch");
            std::process::exit(3);
        }
    }
    #[cfg(not(httparse_verif))]
    {
        if backend != "native" {
            eprintln!("built without hooks: cannot force a backend");
            std::process::exit(3);
        }
    }
}

fn hex(b: &[u8]) -> String {
    b.iter().map(|x| format!("{:02x}", x)).collect()
}

fn unhex(s: &str) -> Vec<u8> {
    (0..s.len() / 2).map(|i| u8::from_str_radix(&s[2 * i..2 * i + 2], 16).unwrap()).collect()
}

/// Only the parse: what `valgrind --tool=callgrind --toggle-collect=verif_work_parse` measures.
/// Input and header array are built by the caller.
#[no_mangle]
#[inline(never)]
pub fn verif_work_parse(entry: u8, cfg: u8, arr: &mut [Header<'static>], buf: &'static [u8]) -> u64 {
    let c = make_config(cfg);
    match entry {
        0 => {
            let mut r = Request::new(arr);
            match c.parse_request(&mut r, buf) {
                Ok(Status::Complete(n)) => n as u64 * 4 + 1,
                Ok(Status::Partial) => 2,
                Err(_) => 3,
            }
        }
        1 => {
            let mut r = Response::new(arr);
            match c.parse_response(&mut r, buf) {
                Ok(Status::Complete(n)) => n as u64 * 4 + 1,
                Ok(Status::Partial) => 2,
                Err(_) => 3,
            }
        }
        2 => match httparse::parse_headers(buf, arr) {
            Ok(Status::Complete((n, _))) => n as u64 * 4 + 1,
            Ok(Status::Partial) => 2,
            Err(_) => 3,
        },
        _ => match httparse::parse_chunk_size(buf) {
            Ok(Status::Complete((n, _))) => n as u64 * 4 + 1,
            Ok(Status::Partial) => 2,
            Err(_) => 3,
        },
    }
}

struct Family {
    name: &'static str,
    entry: Entry,
    cfg: u8,
    gen: fn(usize) -> Vec<u8>,
}

fn rep(pre: &[u8], unit: &[u8], n: usize, post: &[u8]) -> Vec<u8> {
    let k = n / unit.len().max(1);
    let mut v = Vec::with_capacity(pre.len() + k * unit.len() + post.len());
    v.extend_from_slice(pre);
    for _ in 0..k {
        v.extend_from_slice(unit);
    }
    v.extend_from_slice(post);
    v
}

const RQ: &[u8] = b"GET / HTTP/1.1\r\n";
const RS: &[u8] = b"HTTP/1.1 200 OK\r\n";

/// The same adversarial generators as the explorer's S8 size families.
fn families() -> Vec<Family> {
    let mut v = vec![
        Family { name: "huge-method", entry: Entry::Req, cfg: 0, gen: |n| rep(b"", b"M", n, b" / HTTP/1.1\r\n\r\n") },
        Family { name: "huge-target", entry: Entry::Req, cfg: 0, gen: |n| rep(b"GET /", b"a", n, b" HTTP/1.1\r\n\r\n") },
        Family { name: "huge-utf8-target", entry: Entry::Req, cfg: 0, gen: |n| rep(b"GET /", "é€".as_bytes(), n, b" HTTP/1.1\r\n\r\n") },
        Family { name: "huge-header-name", entry: Entry::Req, cfg: 0, gen: |n| rep(RQ, b"n", n, b": v\r\n\r\n") },
        Family { name: "huge-header-value", entry: Entry::Resp, cfg: 0, gen: |n| rep(b"HTTP/1.1 200 OK\r\nV: ", b"v", n, b"\r\n\r\n") },
        Family { name: "huge-obs-text-value", entry: Entry::Resp, cfg: 0, gen: |n| rep(b"HTTP/1.1 200 OK\r\nV: ", b"\xff\x80", n, b"\r\n\r\n") },
        Family { name: "huge-reason", entry: Entry::Resp, cfg: 0, gen: |n| rep(b"HTTP/1.1 200 ", b"r ", n, b"\r\n\r\n") },
        Family { name: "huge-chunk-extension", entry: Entry::Chunk, cfg: 0, gen: |n| rep(b"1f;", b"e\n", n, b"\r\n") },
        Family { name: "chunk-whitespace-run", entry: Entry::Chunk, cfg: 0, gen: |n| rep(b"1f", b" \t", n, b";x\r\n") },
        Family { name: "tiny-headers", entry: Entry::Req, cfg: 0, gen: |n| rep(RQ, b"a:b\r\n", n, b"\r\n") },
        Family { name: "tiny-headers-parse_headers", entry: Entry::Headers, cfg: 0, gen: |n| rep(b"", b"a:b\n", n, b"\n") },
        Family { name: "minimal-headers-parse_headers", entry: Entry::Headers, cfg: 0, gen: |n| rep(b"", b"a:\n", n, b"\n") },
        Family { name: "minimal-headers-request", entry: Entry::Req, cfg: 0, gen: |n| rep(b"GET / HTTP/1.1\n", b"a:\n", n, b"\n") },
        Family { name: "minimal-headers-response", entry: Entry::Resp, cfg: 0, gen: |n| rep(b"HTTP/1.1 200\n", b"b:\n", n, b"\n") },
        Family { name: "huge-obs-text-reason", entry: Entry::Resp, cfg: 0, gen: |n| rep(b"HTTP/1.1 200 ", b"\xe9", n, b"\r\n\r\n") },
        Family { name: "mix-long-first-line-then-folds", entry: Entry::Resp, cfg: 2, gen: |n| { let mut v = rep(b"HTTP/1.1 200 OK\r\nH: ", b"x", n / 2, b""); v.extend(rep(b"", b"\r\n y", n / 2, b"\r\n\r\n")); v } },
        Family { name: "mix-long-first-header-then-many", entry: Entry::Req, cfg: 0, gen: |n| { let mut v = rep(b"GET / HTTP/1.1\r\nBig: ", b"v", n / 2, b"\r\n"); v.extend(rep(b"", b"a:b\r\n", n / 2, b"\r\n")); v } },
        Family { name: "mix-ignored-and-valid-lines", entry: Entry::Resp, cfg: 32, gen: |n| rep(b"HTTP/1.1 200 OK\r\n", b"bad line\r\nk: v\r\n", n, b"\r\n") },
        Family { name: "mix-whitespace-after-many-colons", entry: Entry::Req, cfg: 0, gen: |n| rep(b"GET / HTTP/1.1\r\n", b"k:        \t        v   \r\n", n, b"\r\n") },
        Family { name: "mix-long-target-then-many-headers", entry: Entry::Req, cfg: 0, gen: |n| { let mut v = rep(b"GET /", "é".as_bytes(), n / 2, b" HTTP/1.1\r\n"); v.extend(rep(b"", b"a:b\r\n", n / 2, b"\r\n")); v } },
        Family { name: "empty-value-headers", entry: Entry::Resp, cfg: 0, gen: |n| rep(RS, b"a:\r\n", n, b"\r\n") },
        Family { name: "folded-lines", entry: Entry::Resp, cfg: 2, gen: |n| rep(b"HTTP/1.1 200 OK\r\nH: x\r\n", b" y\r\n", n, b"\r\n") },
        Family { name: "folded-empty-lines", entry: Entry::Resp, cfg: 2, gen: |n| rep(b"HTTP/1.1 200 OK\r\nH:\r\n", b" \r\n", n, b"\r\n") },
        Family { name: "folded-blank-lines", entry: Entry::Resp, cfg: 2, gen: |n| rep(b"HTTP/1.1 200 OK\r\nX: a\r\n", b" \r\n", n, b"\r\n") },
        Family { name: "folded-blank-lines-lf", entry: Entry::Resp, cfg: 2 | 32, gen: |n| rep(b"HTTP/1.1 200 OK\nX: a\n", b"\t\n", n, b"\n") },
        Family { name: "folded-headers", entry: Entry::Resp, cfg: 2, gen: |n| rep(RS, b"h: a\r\n b\r\n", n, b"\r\n") },
        Family { name: "folded-whitespace-tail", entry: Entry::Resp, cfg: 2, gen: |n| rep(b"HTTP/1.1 200 OK\r\nH: x", b" \t", n, b"\r\n \r\n\r\n") },
        Family { name: "ignored-lines", entry: Entry::Resp, cfg: 32, gen: |n| rep(RS, b"bad line\r\n", n, b"\r\n") },
        Family { name: "ignored-lines-request", entry: Entry::Req, cfg: 64, gen: |n| rep(RQ, b": x\n", n, b"\r\n") },
        Family { name: "ignored-long-line", entry: Entry::Resp, cfg: 32, gen: |n| rep(b"HTTP/1.1 200 OK\r\n(", b"x", n, b"\r\nA: b\r\n\r\n") },
        Family { name: "ignored-folded-mix", entry: Entry::Resp, cfg: 32 | 2, gen: |n| rep(RS, b"a: b\r\n c\x01\r\n d\r\n", n, b"\r\n") },
        Family { name: "space-before-first-header", entry: Entry::Resp, cfg: 16, gen: |n| rep(RS, b" \t", n, b"A: b\r\n\r\n") },
        Family { name: "space-lines-before-first-header", entry: Entry::Req, cfg: 16 | 64, gen: |n| rep(RQ, b" (\r\n", n, b"A: b\r\n\r\n") },
        Family { name: "whitespace-after-colon", entry: Entry::Req, cfg: 0, gen: |n| rep(b"GET / HTTP/1.1\r\nA:", b" \t", n, b"b\r\n\r\n") },
        Family { name: "whitespace-after-name", entry: Entry::Resp, cfg: 1, gen: |n| rep(b"HTTP/1.1 200 OK\r\nA", b" \t", n, b": b\r\n\r\n") },
        Family { name: "trailing-whitespace-value", entry: Entry::Req, cfg: 0, gen: |n| rep(b"GET / HTTP/1.1\r\nA: b", b" \t", n, b"\r\n\r\n") },
        Family { name: "whitespace-only-value", entry: Entry::Req, cfg: 0, gen: |n| rep(b"GET / HTTP/1.1\r\nA:", b"\t ", n, b"\r\n\r\n") },
        Family { name: "many-trailing-whitespace-values", entry: Entry::Req, cfg: 0, gen: |n| rep(RQ, b"A: b      \t      \r\n", n, b"\r\n") },
        Family { name: "near-miss-htab-every-8", entry: Entry::Resp, cfg: 0, gen: |n| rep(b"HTTP/1.1 200 OK\r\nV: x", b"vvvvvvv\t", n, b"\r\n\r\n") },
        Family { name: "near-miss-htab-every-16", entry: Entry::Resp, cfg: 0, gen: |n| rep(b"HTTP/1.1 200 OK\r\nV: x", b"vvvvvvvvvvvvvvv\t", n, b"\r\n\r\n") },
        Family { name: "near-miss-htab-every-32", entry: Entry::Resp, cfg: 0, gen: |n| rep(b"HTTP/1.1 200 OK\r\nV: x", b"vvvvvvvvvvvvvvvvvvvvvvvvvvvvvvv\t", n, b"\r\n\r\n") },
        Family { name: "near-miss-short-values", entry: Entry::Resp, cfg: 0, gen: |n| rep(RS, b"k: vvvvvvvvvvvvvvvvvvvvvvvvvvvvvv\r\n", n, b"\r\n") },
        Family { name: "near-miss-short-targets-names", entry: Entry::Req, cfg: 0, gen: |n| rep(RQ, b"nnnnnnnnnnnnnnnnnnnnnnnnnnnnnnn:v\n", n, b"\n") },
        Family { name: "leading-empty-lines", entry: Entry::Req, cfg: 0, gen: |n| rep(b"", b"\r\n\n", n, b"GET / HTTP/1.1\r\n\r\n") },
        Family { name: "leading-empty-lines-response", entry: Entry::Resp, cfg: 0, gen: |n| rep(b"", b"\n", n, b"HTTP/1.1 200 OK\r\n\r\n") },
        Family { name: "multi-space-request-line", entry: Entry::Req, cfg: 4, gen: |n| {
            let mut v = rep(b"GET", b" ", n / 2, b"/");
            v.extend(rep(b"", b" ", n / 2, b"HTTP/1.1\r\n\r\n"));
            v
        } },
        Family { name: "multi-space-status-line", entry: Entry::Resp, cfg: 8, gen: |n| {
            let mut v = rep(b"HTTP/1.1", b" ", n / 2, b"200");
            v.extend(rep(b"", b" ", n / 2, b"OK\r\n\r\n"));
            v
        } },
        Family { name: "colonless-lines", entry: Entry::Resp, cfg: 1 | 32, gen: |n| rep(RS, b"name junk\r\n", n, b"\r\n") },
        Family { name: "colonless-lines-then-header", entry: Entry::Resp, cfg: 1 | 32, gen: |n| rep(RS, b"name  junk\r\n", n, b"A : b\r\n\r\n") },
        Family { name: "colonless-lines-request", entry: Entry::Req, cfg: 64 | 16, gen: |n| rep(RQ, b"name junk\n", n, b"\n") },
        Family { name: "ignored-lf-lines-after-crlf-header", entry: Entry::Resp, cfg: 32, gen: |n| rep(b"HTTP/1.1 200 OK\r\nA: b\r\n", b"bad line\n", n, b"\n") },
        Family { name: "ignored-crlf-lines-after-lf-header", entry: Entry::Req, cfg: 64, gen: |n| rep(b"GET / HTTP/1.1\nA: b\n", b"bad line\r\n", n, b"\r\n") },
        Family { name: "ignored-long-line-unterminated", entry: Entry::Resp, cfg: 32, gen: |n| rep(b"HTTP/1.1 200 OK\r\nA: b\r\n(", b"x", n, b"") },
        Family { name: "long-value-unterminated", entry: Entry::Req, cfg: 0, gen: |n| rep(b"GET / HTTP/1.1\r\nA: ", b"v ", n, b"") },
        Family { name: "folded-value-unterminated", entry: Entry::Resp, cfg: 2, gen: |n| rep(b"HTTP/1.1 200 OK\r\nA: b\r\n ", b"v\t", n, b"") },
    ];
    // (as in the explorer) every header-line family once more with all options of its kind on
    let n = v.len();
    for i in 0..n {
        let f = &v[i];
        let all: u8 = match f.entry {
            Entry::Req => 4 | 16 | 64,
            Entry::Resp => 1 | 2 | 8 | 16 | 32,
            _ => continue,
        };
        let header_lines = !(f.name.starts_with("huge-") || f.name.starts_with("near-miss") || f.name.starts_with("leading-") || f.name.starts_with("multi-space"));
        if !header_lines || f.cfg == all {
            continue;
        }
        let name: &'static str = Box::leak(format!("{}+all-options", f.name).into_boxed_str());
        let twin = Family { name, entry: f.entry, cfg: all, gen: f.gen };
        v.push(twin);
    }
    v
}

fn main() {
    let args: Vec<String> = std::env::args().collect();
    std::panic::set_hook(Box::new(|_| {}));
    let backend = args.iter().position(|a| a == "--backend").map(|i| args[i + 1].clone()).unwrap_or_else(|| "native".into());
    match args.get(1).map(|s| s.as_str()) {
        Some("run") => {
            force(&backend);
            // partitions are independent: one thread each (the forced backend is process-wide)
            let handles: Vec<_> = (0..NPART)
                .map(|p| {
                    std::thread::spawn(move || {
                        let mut h = 0xcbf29ce484222325u64;
                        let mut n = 0u64;
                        partition(p, &mut |e, cfg, cap, b| {
                            let r = call(e, cfg, cap, b);
                            fnv(&mut h, b);
                            fnv(&mut h, r.as_bytes());
                            n += 1;
                        });
                        (n, h)
                    })
                })
                .collect();
            let mut total = 0u64;
            for (p, h) in handles.into_iter().enumerate() {
                let (n, d) = h.join().unwrap();
                total += n;
                println!("{} {} {:016x}", p, n, d);
            }
            println!("total {}", total);
        }
        Some("mini") => {
            // single-threaded on purpose (interpreters)
            force(&backend);
            let mut total = 0u64;
            for p in 0..MINI_PARTS {
                let mut h = 0xcbf29ce484222325u64;
                let mut n = 0u64;
                mini_partition(p, &mut |e, cfg, cap, b| {
                    let r = call(e, cfg, cap, b);
                    fnv(&mut h, b);
                    fnv(&mut h, r.as_bytes());
                    n += 1;
                });
                total += n;
                println!("{} {} {:016x}", p, n, h);
            }
            println!("total {}", total);
            println!("target pointer-width {} endian {}", usize::BITS, if cfg!(target_endian = "big") { "big" } else { "little" });
        }
        Some("mini-dump") => {
            force(&backend);
            let p: usize = args[2].parse().unwrap();
            let out = std::io::stdout();
            let mut lock = std::io::BufWriter::new(out.lock());
            use std::io::Write;
            mini_partition(p, &mut |e, cfg, cap, b| {
                let r = call(e, cfg, cap, b);
                writeln!(lock, "{:?} {} {} {} {}", e, cfg, cap, hex(b), r).unwrap();
            });
        }
        Some("scangrid") => {
            #[cfg(httparse_verif)]
            {
                let k: usize = args.get(2).and_then(|s| s.parse().ok()).unwrap_or(6);
                let lmax: usize = args.get(3).and_then(|s| s.parse().ok()).unwrap_or(24);
                let only_class: Option<u8> = args.get(4).and_then(|s| s.parse().ok());
                let small = args.get(5).map_or(false, |s| s == "small");
                let (runs, bad) = scangrid(k, lmax, only_class, small);
                println!("scangrid {} {}", runs, bad);
                println!("target pointer-width {} endian {}", usize::BITS, if cfg!(target_endian = "big") { "big" } else { "little" });
                std::process::exit(if bad > 0 { 1 } else { 0 });
            }
            #[cfg(not(httparse_verif))]
            {
                eprintln!("built without hooks");
                std::process::exit(3);
            }
        }
        Some("deep") => {
            // every size family at <size> bytes, three variants, each parse on a thread with a
            // small fixed stack: stack use that grows with the input (recursion per line, per
            // header, per byte) ends the process here. One "start"/"ok" line pair per case, so
            // that the parent knows which case the process died in.
            force(&backend);
            let n: usize = args[2].parse().unwrap();
            let only = args.get(3).cloned();
            use std::io::Write;
            let mut cases = 0u64;
            for f in families() {
                if let Some(o) = &only {
                    if o != f.name {
                        continue;
                    }
                }
                for v in ["complete", "unterminated", "error"] {
                    let mut input = (f.gen)(n);
                    if v != "complete" {
                        while matches!(input.last(), Some(b'\r') | Some(b'\n')) {
                            input.pop();
                        }
                        if v == "unterminated" {
                            input.pop();
                        } else {
                            input.extend_from_slice(b"\0\r\n\r\n");
                        }
                    }
                    println!("start {} {} {}", f.name, v, input.len());
                    std::io::stdout().flush().unwrap();
                    let (entry, cfg) = (f.entry, f.cfg);
                    let cap = n / 3 + 8;
                    let h = std::thread::Builder::new()
                        .stack_size(256 * 1024)
                        .spawn(move || {
                            let input: &'static [u8] = Box::leak(input.into_boxed_slice());
                            let arr: &'static mut [Header<'static>] = Box::leak(vec![EMPTY_HEADER; cap].into_boxed_slice());
                            let e = match entry {
                                Entry::Req => 0,
                                Entry::Resp => 1,
                                Entry::Headers => 2,
                                Entry::Chunk => 3,
                            };
                            verif_work_parse(e, cfg, arr, input)
                        })
                        .unwrap();
                    match h.join() {
                        Ok(r) => println!("ok {} {} {}", f.name, v, r),
                        Err(_) => println!("panic {} {}", f.name, v),
                    }
                    cases += 1;
                }
            }
            println!("deep: {} cases", cases);
        }
        Some("xrun") => {
            force(&backend);
            let num = |i: usize, d: usize| args.get(i).and_then(|s| s.parse().ok()).unwrap_or(d);
            xt::xrun(args.get(2).map(|s| s == "thorough").unwrap_or(false), args.get(3).and_then(|s| s.parse().ok()), num(4, 0), num(5, 1));
        }
        Some("xsizes") => xt::xsizes(args.get(2).map(|s| s == "thorough").unwrap_or(false)),
        Some("xdump") => {
            force(&backend);
            let num = |i: usize, d: usize| args.get(i).and_then(|s| s.parse().ok()).unwrap_or(d);
            xt::xdump(args.get(2).map(|s| s == "thorough").unwrap_or(false), args[3].parse().unwrap(), num(4, 0), num(5, 1));
        }
        Some("xone") => {
            force(&backend);
            let e = match args[2].as_str() {
                "Req" => Entry::Req,
                "Resp" => Entry::Resp,
                "Headers" => Entry::Headers,
                _ => Entry::Chunk,
            };
            xt::xone(e, args[3].parse().unwrap(), args[4].parse().unwrap(), &unhex(&args[5]));
        }
        Some("giant") => {
            // a head whose single header value is 4 GiB (+ 16 bytes): offsets beyond 32 bits on a
            // 64-bit host. Expectations are computed from the construction, not from a model.
            #[cfg(target_pointer_width = "64")]
            {
                force(&backend);
                let vlen: usize = (4usize << 30) + 16;
                let mut bad = 0;
                for (kind, pre) in [("request", &b"GET /x HTTP/1.1\r\nA: "[..]), ("response", b"HTTP/1.1 200 OK\r\nA: "), ("headers", b"A: ")] {
                    let total = pre.len() + vlen + 4;
                    let mut buf: Vec<u8> = Vec::new();
                    if buf.try_reserve_exact(total).is_err() {
                        println!("giant skipped: cannot allocate {} bytes", total);
                        return;
                    }
                    buf.extend_from_slice(pre);
                    buf.resize(pre.len() + vlen, b'v');
                    buf.extend_from_slice(b"\r\n\r\n");
                    let mut arr = [EMPTY_HEADER; 4];
                    let (st, hs): (Option<usize>, Vec<(usize, usize, usize, usize)>) = {
                        let base = buf.as_ptr() as usize;
                        let f = |h: &[Header<'_>]| h.iter().map(|h| (h.name.as_ptr() as usize - base, h.name.len(), (h.value.as_ptr() as usize).wrapping_sub(base), h.value.len())).collect::<Vec<_>>();
                        match kind {
                            "request" => {
                                let mut r = Request::new(&mut arr);
                                match r.parse(&buf) {
                                    Ok(Status::Complete(n)) => (Some(n), f(r.headers)),
                                    _ => (None, Vec::new()),
                                }
                            }
                            "response" => {
                                let mut r = Response::new(&mut arr);
                                match r.parse(&buf) {
                                    Ok(Status::Complete(n)) => (Some(n), f(r.headers)),
                                    _ => (None, Vec::new()),
                                }
                            }
                            _ => match httparse::parse_headers(&buf, &mut arr) {
                                Ok(Status::Complete((n, h))) => (Some(n), f(h)),
                                _ => (None, Vec::new()),
                            },
                        }
                    };
                    let want = (Some(total), vec![(pre.len() - 3, 1, pre.len(), vlen)]);
                    if (st, hs.clone()) != want {
                        bad += 1;
                        println!("GIANT {}: Complete offset {:?} headers {:?}, expected {:?} {:?}", kind, st, hs, want.0, want.1);
                    }
                }
                println!("giant: 3 heads of 4 GiB + 16 value bytes, {} wrong", bad);
                std::process::exit(if bad > 0 { 1 } else { 0 });
            }
            #[cfg(not(target_pointer_width = "64"))]
            println!("giant skipped: not a 64-bit target");
        }
        Some("dump") => {
            force(&backend);
            let p: usize = args[2].parse().unwrap();
            let out = std::io::stdout();
            let mut lock = std::io::BufWriter::new(out.lock());
            use std::io::Write;
            partition(p, &mut |e, cfg, cap, b| {
                let r = call(e, cfg, cap, b);
                writeln!(lock, "{:?} {} {} {} {}", e, cfg, cap, hex(b), r).unwrap();
            });
        }
        Some("one") => {
            force(&backend);
            let e = match args[2].as_str() {
                "Req" => Entry::Req,
                "Resp" => Entry::Resp,
                "Headers" => Entry::Headers,
                _ => Entry::Chunk,
            };
            println!("{}", call(e, args[3].parse().unwrap(), args[4].parse().unwrap(), &unhex(&args[5])));
        }
        Some("work") => {
            force(&backend);
            let n: usize = args[3].parse().unwrap();
            let fams = families();
            let f = match fams.iter().find(|f| f.name == args[2]) {
                Some(f) => f,
                None => {
                    eprintln!("unknown family");
                    std::process::exit(2);
                }
            };
            let mut input = (f.gen)(n);
            // variants: "complete" (default); "unterminated" (the final line ends and one more byte
            // not yet received); "error" (a NUL in place of the final line ends)
            let v = args.get(4).map(|s| s.as_str()).unwrap_or("complete");
            if v != "complete" {
                while matches!(input.last(), Some(b'\r') | Some(b'\n')) {
                    input.pop();
                }
                if v == "unterminated" {
                    input.pop();
                } else {
                    input.extend_from_slice(b"\0\r\n\r\n");
                }
            }
            let input: &'static [u8] = Box::leak(input.into_boxed_slice());
            // optional explicit header capacity (default: enough for every line of the input)
            let cap: usize = args.get(5).and_then(|s| s.parse().ok()).unwrap_or(n / 3 + 8);
            let arr: &'static mut [Header<'static>] = Box::leak(vec![EMPTY_HEADER; cap].into_boxed_slice());
            let e = match f.entry {
                Entry::Req => 0,
                Entry::Resp => 1,
                Entry::Headers => 2,
                Entry::Chunk => 3,
            };
            let r = verif_work_parse(e, f.cfg, arr, input);
            println!("{} {}", input.len(), r);
        }
        Some("race") => {
            // cold start: T threads released together make their FIRST parse calls of this process
            // concurrently; afterwards (warm, single-threaded) the same calls give the reference.
            // Supplementary to the loom exploration: it samples schedules of the real binary, and can
            // only ever report a true difference.
            let t: usize = args.get(2).and_then(|s| s.parse().ok()).unwrap_or(16);
            let inputs: Vec<(Entry, u8, Vec<u8>)> = {
                let mut v = Vec::new();
                for (i, f) in FIELDS.iter().enumerate() {
                    for l in [3usize, 17, 33, 70] {
                        let mut b = f.pre.to_vec();
                        b.extend(std::iter::repeat(f.fill).take(l));
                        if i % 2 == 0 && l > 4 {
                            b[f.pre.len() + l / 2] = 0x7f;
                        }
                        b.extend_from_slice(f.post);
                        v.push((f.entry, f.cfg, b));
                    }
                }
                v
            };
            let inputs = std::sync::Arc::new(inputs);
            let barrier = std::sync::Arc::new(std::sync::Barrier::new(t));
            let handles: Vec<_> = (0..t)
                .map(|k| {
                    let inputs = inputs.clone();
                    let barrier = barrier.clone();
                    std::thread::spawn(move || {
                        barrier.wait();
                        let n = inputs.len();
                        (0..n).map(|j| { let (e, c, b) = &inputs[(j + k) % n]; ((j + k) % n, call(*e, *c, 2, b)) }).collect::<Vec<_>>()
                    })
                })
                .collect();
            let results: Vec<Vec<(usize, String)>> = handles.into_iter().map(|h| h.join().unwrap()).collect();
            let reference: Vec<String> = inputs.iter().map(|(e, c, b)| call(*e, *c, 2, b)).collect();
            let mut bad = 0;
            for (k, rs) in results.iter().enumerate() {
                for (j, r) in rs {
                    if *r != reference[*j] {
                        bad += 1;
                        println!("MISMATCH thread {} input {} {}: racing {:?} warm {:?}", k, j, hex(&inputs[*j].2), r, reference[*j]);
                    }
                }
            }
            println!("race: {} threads x {} first calls, {} mismatches", t, inputs.len(), bad);
            std::process::exit(if bad > 0 { 1 } else { 0 });
        }
        Some("info") => {
            #[cfg(httparse_verif)]
            println!("{}", httparse::_verif::build_info());
            #[cfg(not(httparse_verif))]
            println!("unknown");
        }
        Some("memcheck") => {
            // meant to run under `valgrind --partial-loads-ok=no`: every buffer is an exact-size heap
            // allocation, so a single byte read before or behind it is reported, whether or not it
            // changes a result. All prefixes (from the start of the field on) of every lane-phase
            // frame with run length 0..=lmax, at several start offsets inside the allocation.
            force(&backend);
            let lmax: usize = args.get(2).and_then(|s| s.parse().ok()).unwrap_or(40);
            let mut calls = 0u64;
            let mut sink = 0usize;
            for f in FIELDS.iter() {
                for l in 0..=lmax {
                    let mut msg = f.pre.to_vec();
                    msg.extend(std::iter::repeat(f.fill).take(l));
                    msg.extend_from_slice(f.post);
                    for k in f.pre.len()..=msg.len() {
                        for a in [0usize, 1, 3, 8, 15] {
                            let mut v = vec![0xAAu8; a + k];
                            v[a..].copy_from_slice(&msg[..k]);
                            let boxed: Box<[u8]> = v.into_boxed_slice();
                            let r = call(f.entry, f.cfg, 2, &boxed[a..]);
                            sink += r.len();
                            calls += 1;
                        }
                    }
                }
            }
            println!("memcheck corpus: {} calls ({})", calls, sink);
        }
        Some("families") => {
            for f in families() {
                println!("{}", f.name);
            }
        }
        _ => {
            eprintln!("usage: digest run|dump <p>|one <entry> <cfg> <cap> <hex>|work <family> <size>|families [--backend b]");
            std::process::exit(2);
        }
    }
}
