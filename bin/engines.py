"""Engines other than `explore` (filled in below)."""


def run_for(prop, tier, res):
    return []


def replay(rep, path):
    print("no replay handler for kind %r" % rep.get("kind"))
    return 2
