"""Engines other than `explore`: stateright histories, loom schedules, build lattice, digest
variants, the client-program corpus (rustc as the judge) and the instruction-count leg.

Each engine enumerates a finite space completely and reports what it covered into the Result of
bin/check. A violation is written as a replay file (kind history / loom / build / digest /
program / work) that `bin/check --replay` re-executes.
"""
import concurrent.futures
import hashlib
import json
import os
import re
import shutil
import subprocess
import sys
import time

import lifetimes

check = sys.modules.get("__main__")
if not hasattr(check, "cargo_build"):  # imported from elsewhere (setup)
    import importlib.machinery
    import importlib.util
    _p = os.path.join(os.path.dirname(os.path.abspath(__file__)), "check")
    _loader = importlib.machinery.SourceFileLoader("verif_check", _p)
    _spec = importlib.util.spec_from_loader("verif_check", _loader)
    check = importlib.util.module_from_spec(_spec)
    _loader.exec_module(check)

VERIF = check.VERIF
HARNESS = check.HARNESS
TARGET = check.TARGET
REPO = check.REPO
REPLAYS = check.REPLAYS
ENV = check.ENV
Machinery = check.Machinery
log = check.log
run = check.run

HOOK = "--cfg httparse_verif"


def write_replay(name, body):
    os.makedirs(REPLAYS, exist_ok=True)
    path = os.path.join(REPLAYS, name)
    with open(path, "w") as f:
        json.dump(body, f, indent=1)
    return path


# ------------------------------------------------------------------------------------------
# S4: stateright histories
# ------------------------------------------------------------------------------------------

def run_histories(res, model, prop):
    binary = check.cargo_build("histories", "release")
    out = os.path.join(TARGET, "journal", "hist-%s-%s-%d.json" % (model, prop, os.getpid()))
    os.makedirs(os.path.dirname(out), exist_ok=True)
    rc, so, se, dt = run([binary, model, res.tier, "--out", out, "--prop", prop, "--replays", REPLAYS], timeout=3000)
    if rc not in (0, 1) or not os.path.exists(out):
        raise Machinery("histories %s failed with status %d\n%s" % (model, rc, se[-3000:]))
    with open(out) as f:
        data = json.load(f)
    os.remove(out)
    for p in data["violations"]:
        rc2, so2, _, _ = run([binary, "replay", p], timeout=300)
        if rc2 != 1:
            # the discovery does not replay on its own: the subject may keep state between calls, so
            # that what the exploration saw depended on the other histories run in the same process.
            # Re-run the whole model instance single-threaded (deterministic order), twice.
            a = run([binary, "instance", p], timeout=1800)
            b = run([binary, "instance", p], timeout=1800)
            if a[0] == 1 and b[0] == 1 and a[1] == b[1]:
                with open(p) as f:
                    rep = json.load(f)
                rep["model"] = "recycled-instance" if "recycled" in rep.get("model", "") else "reuse-instance"
                rep["what"] = (rep.get("what", "") + " — reproducible only as part of the single-threaded exploration of this model instance (the parser keeps state between calls)").strip()
                with open(p, "w") as f:
                    json.dump(rep, f, indent=1)
                so2 = a[1]
            else:
                raise Machinery("history violation %s does not reproduce\n%s" % (p, so2))
        log(so2)
        with open(p) as f:
            what = json.load(f).get("what", "")
        res.add_violation(p, what)
    res.states += data["states"]
    res.transitions += data["transitions"]
    res.traces += data["impl_executions"]
    res.samples.extend(data.get("samples", [])[:3])
    insts = data["instances"]
    res.engines.append({
        "engine": "histories/%s (stateright 0.31, spawn_dfs, real parser replayed on every transition)" % model,
        "states": data["states"], "transitions": data["transitions"], "max_depth": data["max_depth"],
        "impl_executions": data["impl_executions"], "model_instances": len(insts),
        "instances_sample": insts[:6], "wall_s": data["wall_s"],
    })


# ------------------------------------------------------------------------------------------
# S5: loom schedules
# ------------------------------------------------------------------------------------------

def run_loom(res):
    binary = check.cargo_build("rtloom", "release")
    configs = [(2, 2), (3, 1)] if res.tier == "quick" else [(2, 2), (3, 1), (3, 2), (4, 1)]
    jobs = [(cpu, t, k) for cpu in ("avx2", "avx", "sse42", "none") for (t, k) in configs]
    total_exec = 0
    items = []

    def one(job):
        cpu, t, k = job
        return job, run([binary, cpu, str(t), str(k)], timeout=3000)

    with concurrent.futures.ThreadPoolExecutor(max_workers=8) as ex:
        for job, (rc, so, se, dt) in ex.map(one, jobs):
            cpu, t, k = job
            if rc != 0:
                msg = [l for l in se.splitlines() if "panicked" in l or "assertion" in l or "left" in l or "right" in l]
                path = write_replay("C13-loom-%s-%dx%d.json" % (cpu, t, k), {
                    "property": "C13", "kind": "loom", "cpu": cpu, "threads": t, "calls": k,
                    "what": "an interleaving of first calls through the backend cache breaks an invariant",
                    "detail": "\n".join(msg)[:2000]})
                # deterministic exploration: the same configuration fails again
                rc2, _, se2, _ = run([binary, cpu, str(t), str(k)], timeout=3000)
                if rc2 == 0:
                    raise Machinery("loom failure did not reproduce")
                log(se[-1500:])
                res.add_violation(path, "loom: " + "; ".join(msg)[:300])
                continue
            d = json.loads(so.strip().splitlines()[-1])
            total_exec += d["executions"]
            items.append(d)
    res.states += total_exec
    res.transitions += sum(d["dispatches"] for d in items)
    res.samples.append({"loom": "simulated CPU sse4.2-only, 2 threads x 2 first calls through match_uri_vectored / match_header_value_vectored, every interleaving and every stale Relaxed read"})
    res.engines.append({"engine": "rtloom (loom 0.7.2, unbounded preemptions, real src/simd/runtime.rs textually included)",
                        "executions": total_exec, "configs": items})


# ------------------------------------------------------------------------------------------
# S6: build lattice and digest variants
# ------------------------------------------------------------------------------------------

def lattice_points(quick):
    pts = []
    for std in (True, False):
        for dis in (False, True):
            for ct in (False, True):
                for tf in ("", "+sse4.2", "+avx2", "+sse4.2,+avx2"):
                    pts.append((std, dis, ct, tf))
    # whole CPU levels (they enable many more target features than the two the build script looks at)
    for std in (True, False):
        for cpu in ("cpu=x86-64-v2", "cpu=x86-64-v3", "cpu=native"):
            pts.append((std, False, False, cpu))
    # (every point is built in both tiers: an incremental build of the library takes about a second)
    # profile dimension: cfg(debug_assertions) is a build switch too. Release builds of every
    # no_std point and of the plain / +sse4.2 / +avx2 std points (thorough: of every point).
    rel = [p + ("release",) for p in pts if not quick or not p[0] or (not p[1] and not p[2] and p[3] in ("", "+sse4.2", "+avx2"))]
    return [p + ("dev",) for p in pts] + rel


def lattice_cmd(pt):
    std, dis, ct, tf = pt[:4]
    profile = pt[4] if len(pt) > 4 else "dev"
    name = "std%d-dis%d-ct%d-%s" % (std, dis, ct, tf.replace("+", "").replace(",", "_").replace(".", "").replace("=", "-") or "none")
    if profile == "release":
        name += "-release"
    env = dict(ENV)
    env["CARGO_TARGET_DIR"] = os.path.join(TARGET, "lattice", name)
    if tf.startswith("cpu="):
        env["RUSTFLAGS"] = "-C target-cpu=" + tf[4:]
    elif tf:
        env["RUSTFLAGS"] = "-C target-feature=" + tf
    if dis:
        env["CARGO_CFG_HTTPARSE_DISABLE_SIMD"] = "1"
    if ct:
        env["CARGO_CFG_HTTPARSE_DISABLE_SIMD_COMPILETIME"] = "1"
    cmd = ["cargo", "build", "--offline", "--lib"]
    if profile == "release":
        cmd.append("--release")
    if not std:
        cmd.append("--no-default-features")
    return name, cmd, env


def run_lattice(res, prop):
    pts = lattice_points(res.tier == "quick")

    def one(pt):
        name, cmd, env = lattice_cmd(pt)
        rc, so, se, dt = run(cmd, cwd=REPO, env=env, timeout=1200)
        return pt, name, rc, se

    ok = 0
    with concurrent.futures.ThreadPoolExecutor(max_workers=8) as ex:
        for pt, name, rc, se in ex.map(one, pts):
            if rc == 0:
                ok += 1
                continue
            errs = [l for l in se.splitlines() if l.startswith("error")]
            path = write_replay("%s-build-%s.json" % (prop, name), {
                "property": prop, "kind": "build", "point": list(pt),
                "what": "this combination of build switches does not compile (no provider, or two providers, of a scanner entry point)",
                "errors": errs[:10]})
            log(se[-1500:])
            res.add_violation(path, "build switches %s: %s" % (name, "; ".join(errs[:2])))
    res.states += len(pts)
    res.transitions += len(pts)
    res.samples.append({"build": "cargo build --lib with std=%s CARGO_CFG_HTTPARSE_DISABLE_SIMD=%s ..._COMPILETIME=%s target-feature=%r profile=%s" % pts[1]})
    res.engines.append({"engine": "build lattice (cargo build --lib of /repo, one target dir per point, no hooks)",
                        "points": len(pts), "built": ok,
                        "space": "std on/off x DISABLE_SIMD x DISABLE_SIMD_COMPILETIME x target-feature {none,+sse4.2,+avx2,+sse4.2,+avx2}, plus std on/off x target-cpu {x86-64-v2, x86-64-v3, native} (38 points, dev profile); release profile (debug assertions off): every no_std point and the plain/+sse4.2/+avx2 std points (thorough: all 38)"})


def warm_builds():
    """bin/setup: builds every lattice point and cross leg once, so that the checks only re-verify."""
    class R:  # a throw-away result
        tier = "quick"
        states = transitions = 0
        def __init__(self):
            self.violations, self.samples, self.engines = [], [], []
        def add_violation(self, *a):
            self.violations.append(a)
    r = R()
    run_lattice(r, "C19")
    try:
        run_cross_targets(r, "C19", ["core-only", "core-only-i686", "core-only-aarch64", "core-only-riscv32", "i686", "i686-sse42", "i686-avx2", "aarch64"])
    except Machinery:
        pass


VARIANTS = {
    # name: (cargo args, extra rustflags, env)
    "runtime": ([], "", {}),
    "ct-sse42": ([], "-C target-feature=+sse4.2", {}),
    "ct-avx2": ([], "-C target-feature=+avx2", {}),
    "nosimd": ([], "", {"CARGO_CFG_HTTPARSE_DISABLE_SIMD": "1"}),
    "nostd": (["--no-default-features"], "", {}),
}


def build_variant(name, profile):
    args, flags, env = VARIANTS[name]
    e = {"RUSTFLAGS": (HOOK + " " + flags).strip()}
    e.update(env)
    tdir = os.path.join(TARGET, "variants", name)
    return check.cargo_build("digest", profile, extra_env=e, target_dir=tdir, extra_args=args)


def digest_runs(tier):
    """(label, variant, profile, backend)"""
    runs = [("runtime/avx2", "runtime", "release", "avx2"), ("runtime/sse4.2", "runtime", "release", "sse42"),
            ("runtime/scalar", "runtime", "release", "scalar"), ("compile-time sse4.2", "ct-sse42", "release", "native"),
            ("compile-time avx2", "ct-avx2", "release", "native"), ("SIMD disabled", "nosimd", "release", "native"),
            ("no_std", "nostd", "release", "native"), ("runtime/native, dev profile (debug assertions)", "runtime", "dev", "native")]
    if tier != "quick":
        runs += [("runtime/avx2 dev", "runtime", "dev", "avx2"), ("runtime/sse4.2 dev", "runtime", "dev", "sse42"),
                 ("runtime/scalar dev", "runtime", "dev", "scalar"), ("compile-time sse4.2 dev", "ct-sse42", "dev", "native"),
                 ("compile-time avx2 dev", "ct-avx2", "dev", "native"), ("SIMD disabled dev", "nosimd", "dev", "native"),
                 ("no_std dev", "nostd", "dev", "native")]
    return runs


def run_digests(res, prop, partitions=None):
    runs = digest_runs(res.tier)
    builds = sorted(set((v, p) for _, v, p, _ in runs))
    bins = {}
    with concurrent.futures.ThreadPoolExecutor(max_workers=6) as ex:
        for key, b in zip(builds, ex.map(lambda k: build_variant(*k), builds)):
            bins[key] = b

    def one(r):
        label, v, p, backend = r
        rc, so, se, dt = run([bins[(v, p)], "run", "--backend", backend], timeout=3000)
        if rc != 0:
            raise Machinery("digest %s failed: %s" % (label, se[-500:]))
        rows = {}
        for l in so.splitlines():
            a = l.split()
            if a[0] != "total":
                rows[int(a[0])] = (int(a[1]), a[2])
        return r, rows

    # each variant must really be what its label says: the build switches select the documented backend
    expected = {"runtime": "runtime-dispatch", "ct-sse42": "compile-time-sse42", "ct-avx2": "compile-time-avx2",
                "nosimd": "swar-only", "nostd": "swar-only"}
    for (v, prof), b in sorted(bins.items()):
        rc, so, se, dt = run([b, "info"], timeout=60)
        got = so.strip()
        if rc != 0:
            raise Machinery("digest info failed for %s" % v)
        if got != expected[v]:
            path = write_replay("%s-backend-%s-%s.json" % (prop, v, prof), {
                "property": prop, "kind": "backend-selection", "variant": v, "profile": prof, "expected": expected[v], "selected": got,
                "what": "the build switches of variant %s select the %s scanners, not the documented %s" % (v, got, expected[v])})
            res.add_violation(path, "variant %s (%s): build selects %s, documented %s" % (v, prof, got, expected[v]))
    if res.violations:
        return

    results = []
    with concurrent.futures.ThreadPoolExecutor(max_workers=8) as ex:
        for r, rows in ex.map(one, runs):
            results.append((r, rows))
    base_r, base = results[0]
    parts = sorted(base) if partitions is None else partitions
    inputs = sum(base[p][0] for p in parts)
    for r, rows in results[1:]:
        for p in parts:
            if rows[p] == base[p]:
                continue
            # narrow down to one input
            a = run([bins[(base_r[1], base_r[2])], "dump", str(p), "--backend", base_r[3]], timeout=3000)[1].splitlines()
            b = run([bins[(r[1], r[2])], "dump", str(p), "--backend", r[3]], timeout=3000)[1].splitlines()
            diff = next(((x, y) for x, y in zip(a, b) if x != y), None)
            if diff is None:
                raise Machinery("digests of partition %d differ (%s vs %s) but the dumps are equal" % (p, base_r[0], r[0]))
            ea, cfg, cap, hx = diff[0].split()[:4]
            path = write_replay("%s-digest-p%d-%s.json" % (prop, p, hashlib.sha1(hx.encode()).hexdigest()[:12]), {
                "property": prop, "kind": "digest", "partition": p,
                "a": {"variant": base_r[1], "profile": base_r[2], "backend": base_r[3], "label": base_r[0]},
                "b": {"variant": r[1], "profile": r[2], "backend": r[3], "label": r[0]},
                "entry": ea, "config": int(cfg), "capacity": int(cap), "input_hex": hx,
                "result_a": " ".join(diff[0].split()[4:]), "result_b": " ".join(diff[1].split()[4:]),
                "what": "the same input parses differently under two build variants / backends / profiles"})
            log("digest mismatch %s vs %s on %s: %s | %s" % (base_r[0], r[0], hx, diff[0].split()[4:], diff[1].split()[4:]))
            res.add_violation(path, "%s vs %s differ on input %s" % (base_r[0], r[0], hx))
            break
    res.states += inputs * len(results)
    res.transitions += inputs * len(results)
    res.samples.append({"digest": "partition 4 (header-value lane-phase sweep): value of L=33 'v' bytes with byte 0x7f at position 31, parsed by every variant"})
    res.engines.append({"engine": "digest variants (same enumerated corpus under every build variant / forced backend / profile; per-partition digests compared)",
                        "variants": [r[0][0] for r in results], "partitions": len(parts), "inputs_per_variant": inputs})


def run_cross_targets(res, prop, which):
    """-Zbuild-std legs: core-only build, aarch64 (NEON) and i686 type-checks."""
    legs = {
        "core-only": (["cargo", "+nightly", "build", "--offline", "--lib", "-Zbuild-std=core", "--target", "x86_64-unknown-none", "--no-default-features"],
                      "builds against core alone: the x86_64-unknown-none sysroot built here has no std and no alloc crate"),
        "core-only-i686": (["cargo", "+nightly", "build", "--offline", "--lib", "-Zbuild-std=core", "--target", "i686-unknown-linux-gnu", "--no-default-features"],
                           "builds against core alone for 32-bit x86 (the build script and the runtime-detection module key on the architecture)"),
        "core-only-aarch64": (["cargo", "+nightly", "build", "--offline", "--lib", "-Zbuild-std=core", "--target", "aarch64-unknown-none", "--no-default-features"],
                              "builds against core alone for aarch64 (NEON scanners without std)"),
        "core-only-riscv32": (["cargo", "+nightly", "build", "--offline", "--lib", "-Zbuild-std=core", "--target", "riscv32imac-unknown-none-elf", "--no-default-features"],
                              "builds against core alone for a 32-bit target without SIMD"),
        "i686-sse42": (["cargo", "+nightly", "check", "--offline", "--lib", "-Zbuild-std=std", "--target", "i686-unknown-linux-gnu"],
                       "32-bit x86 with the sse4.2 target feature: the cfg lattice must provide each scanner exactly once", {"RUSTFLAGS": "-C target-feature=+sse4.2"}),
        "i686-avx2": (["cargo", "+nightly", "check", "--offline", "--lib", "-Zbuild-std=std", "--target", "i686-unknown-linux-gnu"],
                      "32-bit x86 with the avx2 target feature", {"RUSTFLAGS": "-C target-feature=+avx2"}),
        "aarch64": (["cargo", "+nightly", "check", "--offline", "--lib", "-Zbuild-std=std", "--target", "aarch64-unknown-linux-gnu"],
                    "NEON module type-checks against the real aarch64 intrinsics"),
        "i686": (["cargo", "+nightly", "check", "--offline", "--lib", "-Zbuild-std=std", "--target", "i686-unknown-linux-gnu"],
                 "32-bit target (word-at-a-time block = 4 bytes) type-checks"),
    }
    for name in which:
        cmd, meaning = legs[name][:2]
        env = dict(ENV)
        if len(legs[name]) > 2:
            env.update(legs[name][2])
        env["CARGO_TARGET_DIR"] = os.path.join(TARGET, "cross", name)
        rc, so, se, dt = run(cmd, cwd=REPO, env=env, timeout=1800)
        if rc != 0:
            errs = [l for l in se.splitlines() if l.startswith("error")]
            if any("E0463" in l or "can't find crate" in l or "unresolved" in l or "E0433" in l or "E0432" in l or "E0425" in l or "E0308" in l for l in errs) or errs:
                path = write_replay("%s-cross-%s.json" % (prop, name), {"property": prop, "kind": "build", "cross": name, "cmd": cmd, "env": legs[name][2] if len(legs[name]) > 2 else {},
                                                                          "what": "cross-target leg failed: " + meaning, "errors": errs[:10]})
                log(se[-2000:])
                res.add_violation(path, "%s: %s" % (name, "; ".join(errs[:2])))
                continue
            raise Machinery("cross-target leg %s could not run:\n%s" % (name, se[-2000:]))
        res.states += 1
        res.transitions += 1
        res.engines.append({"engine": "cross-target leg " + name, "cmd": " ".join(cmd), "meaning": meaning, "wall_s": round(dt, 1)})


# ------------------------------------------------------------------------------------------
# S7: client-program corpus
# ------------------------------------------------------------------------------------------

BORROW_CODES = {"E0597", "E0505", "E0506", "E0499", "E0502", "E0515", "E0716", "E0521", "E0713", "E0621", "E0623",
                "E0759", "E0312", "E0495", "E0700", "E0310", "E0503", "E0501", "E0594", "E0596", "E0382", "E0507", "E0508", "E0509"}


def build_rlib():
    env = dict(ENV)
    tdir = os.path.join(TARGET, "rlib")
    env["CARGO_TARGET_DIR"] = tdir
    rc, so, se, dt = run(["cargo", "build", "--offline", "--release", "--lib"], cwd=REPO, env=env, timeout=1200)
    if rc != 0:
        raise Machinery("cannot build the httparse rlib:\n" + se[-2000:])
    rlib = os.path.join(tdir, "release", "libhttparse.rlib")
    return rlib, os.path.join(tdir, "release", "deps")


def compile_program(src, rlib, deps, workdir, idx):
    path = os.path.join(workdir, "p%d.rs" % idx)
    with open(path, "w") as f:
        f.write(src)
    cmd = ["rustc", "--edition", "2018", "--crate-type", "lib", "--emit=metadata", "--error-format=json",
           "-A", "warnings", "--extern", "httparse=" + rlib, "-L", "dependency=" + deps, "--out-dir", workdir,
           "--crate-name", "p%d" % idx, path]
    rc, so, se, dt = run(cmd, timeout=120)
    codes, msgs = [], []
    for l in se.splitlines():
        try:
            d = json.loads(l)
        except ValueError:
            continue
        if d.get("level") == "error":
            c = (d.get("code") or {}).get("code")
            codes.append(c)
            msgs.append(d.get("message", ""))
    return rc, codes, msgs


def run_lifetimes(res):
    rlib, deps = build_rlib()
    progs = lifetimes.corpus()
    workdir = os.path.join(TARGET, "lifetimes-%d" % os.getpid())
    shutil.rmtree(workdir, ignore_errors=True)
    os.makedirs(workdir)

    def one(i):
        name, must, src = progs[i]
        return i, compile_program(src, rlib, deps, workdir, i)

    rejected = accepted = 0
    try:
        with concurrent.futures.ThreadPoolExecutor(max_workers=os.cpu_count() or 8) as ex:
            for i, (rc, codes, msgs) in ex.map(one, range(len(progs))):
                name, must, src = progs[i]
                borrowish = any(c in BORROW_CODES for c in codes) or any("lifetime may not live long enough" in m or "does not live long enough" in m or "borrowed" in m for m in msgs)
                if must == "reject":
                    if rc == 0:
                        path = write_replay("C04-program-%s.json" % name, {
                            "property": "C04", "kind": "program", "name": name, "expect": "reject", "source": src,
                            "what": "a client program that keeps a field after its buffer / a headers slice after its array is gone or mutated is accepted by the compiler"})
                        res.add_violation(path, "escaping program %s compiles" % name)
                    elif not borrowish:
                        raise Machinery("must-reject program %s fails for another reason (API drift?): %s %s" % (name, codes, msgs[:2]))
                    else:
                        rejected += 1
                else:
                    if rc != 0 and borrowish:
                        path = write_replay("C04-program-%s.json" % name, {
                            "property": "C04", "kind": "program", "name": name, "expect": "compile", "source": src,
                            "what": "a legitimate usage pattern no longer compiles (lifetime over-constrained)", "errors": msgs[:3]})
                        res.add_violation(path, "usage pattern %s rejected: %s" % (name, msgs[:1]))
                    elif rc != 0:
                        raise Machinery("must-compile program %s fails to compile for a non-borrow reason: %s %s" % (name, codes, msgs[:2]))
                    else:
                        accepted += 1
    finally:
        shutil.rmtree(workdir, ignore_errors=True)
    res.states += len(progs)
    res.transitions += len(progs)
    res.samples.append({"program": progs[0][0], "expect": progs[0][1], "source": progs[0][2]})
    res.engines.append({"engine": "client-program corpus (rustc --emit=metadata against the rlib built from /repo; verdict read from --error-format=json)",
                        "programs": len(progs), "must_reject_rejected_with_borrow_error": rejected, "must_compile_accepted": accepted,
                        "space": "entry points x returned fields x escapes {buffer dropped, buffer mutated, array dropped, array written, returned as 'static} + usage patterns that must keep compiling"})


# ------------------------------------------------------------------------------------------
# C20: instruction counts under cachegrind
# ------------------------------------------------------------------------------------------

# instructions executed inside the parse call only (input and header array are built outside it)
CALLGRIND = ["valgrind", "--tool=callgrind", "--callgrind-out-file=/dev/null", "--toggle-collect=verif_work_parse"]


def run_cachegrind(res):
    binary = build_variant("runtime", "release")
    fams = run([binary, "families"])[1].split()
    base = 16 << 10 if res.tier == "quick" else 128 << 10
    variants = ("complete", "unterminated", "error")
    jobs = [(f, base * m, v) for f in fams for v in variants for m in (1, 2, 4)]

    def one(job):
        f, n, v = job
        try:
            rc, so, se, dt = run(CALLGRIND + [binary, "work", f, str(n), v], timeout=600)
        except subprocess.TimeoutExpired:
            # a parse of <= 512 KiB that does not finish in ten minutes under callgrind (a linear one
            # takes well under a second) is counted as 10^12 instructions: the ratio rule below fires
            return job, 10 ** 12
        m = re.search(r"Collected\s*:\s*(\d+)", se)
        if rc != 0 or not m or int(m.group(1)) == 0:
            raise Machinery("callgrind run failed for %s %d: %s" % (f, n, se[-500:]))
        return job, int(m.group(1))

    counts = {}
    with concurrent.futures.ThreadPoolExecutor(max_workers=os.cpu_count() or 8) as ex:
        for job, n in ex.map(one, jobs):
            counts[job] = n
    rows = []
    for f in fams:
      for v in variants:
        a, b, c = (counts[(f, base * m, v)] for m in (1, 2, 4))
        d1, d2 = b - a, c - b
        ratio = d2 / max(d1, 1)
        rows.append({"family": f, "variant": v, "sizes": [base, 2 * base, 4 * base], "instructions": [a, b, c], "increment_ratio": round(ratio, 2)})
        if ratio > 2.5 or max(a, b, c) >= 10 ** 12:
            path = write_replay("C20-work-%s-%s.json" % (f, v), {"property": "C20", "kind": "work", "family": f, "variant": v, "base": base,
                                                          "instructions": [a, b, c], "what": "instruction count grows super-linearly with the buffer length (increment ratio %.2f > 2.5)" % ratio})
            res.add_violation(path, "family %s (%s): instructions %d/%d/%d" % (f, v, a, b, c))
    # work must not grow with the header CAPACITY when the buffer stays the same
    cap_rows = []
    cap_jobs = [(f, c) for f in ("tiny-headers", "huge-header-value", "folded-lines", "ignored-lines") for c in (64, 4096, 262144)]

    def cap_one(job):
        f, c = job
        rc, so, se, dt = run(CALLGRIND + [binary, "work", f, "2048", "complete", str(c)], timeout=600)
        m = re.search(r"Collected\s*:\s*(\d+)", se)
        if rc != 0 or not m:
            raise Machinery("callgrind capacity run failed for %s %d: %s" % (f, c, se[-300:]))
        return job, int(m.group(1))

    cap_counts = {}
    with concurrent.futures.ThreadPoolExecutor(max_workers=os.cpu_count() or 8) as ex:
        for job, n in ex.map(cap_one, cap_jobs):
            cap_counts[job] = n
    for f in ("tiny-headers", "huge-header-value", "folded-lines", "ignored-lines"):
        a, b, c = (cap_counts[(f, x)] for x in (64, 4096, 262144))
        cap_rows.append({"family": f, "buffer": 2048, "capacities": [64, 4096, 262144], "instructions": [a, b, c]})
        # tiny-headers with capacity 64 ends early in TooManyHeaders: compare the two large capacities
        if c > b * 1.10 + 2000:
            path = write_replay("C20-capacity-%s.json" % f, {"property": "C20", "kind": "work-capacity", "family": f, "instructions": [a, b, c],
                                                              "what": "the work of a call on a 2 KiB buffer grows with the header capacity (4096 -> 262144 slots)"})
            res.add_violation(path, "family %s: instructions %d -> %d when only the capacity grows" % (f, b, c))
    res.states += len(jobs) + len(cap_jobs)
    res.transitions += len(jobs) + len(cap_jobs)
    res.engines.append({"engine": "instruction counts: capacity leg", "rule": "same 2 KiB buffer, capacity 4096 vs 262144: at most +10% instructions", "rows": cap_rows})
    res.engines.append({"engine": "instruction counts (valgrind --tool=callgrind --toggle-collect=verif_work_parse on the release digest binary: instructions inside the parse call only)",
                        "rule": "I(4N)-I(2N) <= 2.5 x (I(2N)-I(N)) for the complete input, the input without its final line ends (unterminated) and the input with a NUL in place of them (error); only the parse call is counted", "rows": rows})


# ------------------------------------------------------------------------------------------
# C13 supplementary: cold-start races of the real binary; inventory of shared mutable state
# ------------------------------------------------------------------------------------------

SHARED_STATE_RE = re.compile(r"\b(static\s+mut\b|Atomic(?:U|I)(?:8|16|32|64|size)\b|AtomicBool\b|AtomicPtr\b|OnceCell\b|OnceLock\b|LazyLock\b|Lazy\b|lazy_static!|thread_local!|Mutex\b|RwLock\b|UnsafeCell\b|Cell<|RefCell<)")


def shared_state_inventory():
    """Every construct in the crate's sources (outside cfg(httparse_verif) hook code) that can hold
    state shared between calls or threads. The loom harness models exactly one: RUNTIME_FEATURE."""
    found = []
    src = os.path.join(REPO, "src")
    for root, _, files in os.walk(src):
        for fn in sorted(files):
            if not fn.endswith(".rs"):
                continue
            path = os.path.join(root, fn)
            skip_depth = None
            depth = 0
            pending_hook = False
            for ln, line in enumerate(open(path, errors="replace"), 1):
                stripped = line.strip()
                if "cfg(" in stripped and "httparse_verif" in stripped:
                    pending_hook = True
                opens, closes = line.count("{"), line.count("}")
                if pending_hook and skip_depth is None:
                    if opens > closes:
                        # a hook item with a body: skip until its closing brace
                        skip_depth = depth
                        pending_hook = False
                    elif stripped.endswith(";") or stripped.endswith(")") and "fn " not in stripped and not stripped.startswith("#"):
                        pending_hook = False  # single guarded statement
                        depth += opens - closes
                        continue
                inside_hook = skip_depth is not None
                depth += opens - closes
                if inside_hook:
                    if depth <= skip_depth:
                        skip_depth = None
                    continue
                if stripped.startswith("//"):
                    continue
                m = SHARED_STATE_RE.search(line)
                if m:
                    found.append("%s:%d: %s" % (os.path.relpath(path, REPO), ln, stripped[:100]))
    return found


def run_race(res):
    binary = build_variant("runtime", "release")
    procs = 24 if res.tier == "quick" else 200
    inv = shared_state_inventory()
    modelled = [x for x in inv if "runtime.rs" in x and ("RUNTIME_FEATURE" in x or "use std::sync::atomic" in x or "AtomicU8" in x)]
    unmodelled = [x for x in inv if x not in modelled]

    def one(i):
        return run([binary, "race", "16"], timeout=120)

    bad = None
    with concurrent.futures.ThreadPoolExecutor(max_workers=4) as ex:
        for rc, so, se, dt in ex.map(one, range(procs)):
            if rc == 1 and bad is None:
                bad = so
            elif rc not in (0, 1):
                raise Machinery("race leg failed to run: %s" % se[-500:])
    if bad is not None:
        first = [l for l in bad.splitlines() if l.startswith("MISMATCH")][:3]
        path = write_replay("C13-race.json", {"property": "C13", "kind": "race", "processes": procs,
                                               "what": "16 threads making their first parse calls concurrently got a result that differs from the warm single-threaded result",
                                               "mismatches": first, "shared_state": inv})
        log("\n".join(first))
        res.add_violation(path, "cold-start race: " + (first[0] if first else ""))
    res.states += procs
    res.transitions += procs
    res.engines.append({"engine": "cold-start race of the real binary (SUPPLEMENTARY: samples schedules, decides nothing on its own; a reported difference is a true one)",
                        "fresh_processes": procs, "threads": 16, "shared_mutable_state_in_sources": inv,
                        "modelled_by_loom": modelled, "not_modelled_by_loom": unmodelled})
    if unmodelled:
        res.assumptions.append("the sources contain shared mutable state that the loom harness does not model (%s): thread-timing independence of it is only sampled by the cold-start race leg" % "; ".join(unmodelled)[:600])


# ------------------------------------------------------------------------------------------
# C01: byte-granular bounds monitor (valgrind memcheck on exact-size heap buffers)
# ------------------------------------------------------------------------------------------

def run_memcheck(res):
    binary = build_variant("runtime", "release")
    lmax = 24 if res.tier == "quick" else 70
    items = []

    def one(backend):
        cmd = ["valgrind", "-q", "--error-exitcode=9", "--partial-loads-ok=no", "--errors-for-leak-kinds=none",
               binary, "memcheck", str(lmax), "--backend", backend]
        return backend, cmd, run(cmd, timeout=3000)

    with concurrent.futures.ThreadPoolExecutor(max_workers=3) as ex:
        for backend, cmd, (rc, so, se, dt) in ex.map(one, ["avx2", "sse42", "scalar"]):
            m = re.search(r"memcheck corpus: (\d+) calls", so)
            if rc == 9 or "Invalid read" in se or "Invalid write" in se:
                first = "\n".join(se.splitlines()[:14])
                path = write_replay("C01-memcheck-%s.json" % backend, {
                    "property": "C01", "kind": "memcheck", "backend": backend, "lmax": lmax,
                    "what": "valgrind memcheck reports an access outside an exact-size heap buffer during a parse", "report": first})
                log(first)
                res.add_violation(path, "memcheck (%s): %s" % (backend, first.splitlines()[0] if first else ""))
                continue
            if rc != 0 or not m:
                raise Machinery("memcheck leg failed to run (%s): rc=%d %s" % (backend, rc, se[-800:]))
            n = int(m.group(1))
            res.states += n
            res.transitions += n
            items.append({"backend": backend, "calls": n, "wall_s": round(dt, 1)})
    res.engines.append({"engine": "memcheck monitor (valgrind --partial-loads-ok=no on the release digest binary; every buffer an exact-size heap allocation)",
                        "space": "8 single-field frames x run length 0..=%d x every prefix from the start of the field x 5 start offsets inside the allocation x forced backends avx2/sse4.2/scalar" % lmax,
                        "runs": items})


def run_deep(res):
    """C01, stack depth: every size family at 256 KiB (4 MiB), three variants, parsed on a thread with a
    256 KiB stack, in the unoptimised dev build (where a self-call is a real call) and in release."""
    size = (256 << 10) if res.tier == "quick" else (4 << 20)
    items = []

    def one(prof):
        b = build_variant("runtime", prof)
        return prof, b, run([b, "deep", str(size)], timeout=3000)

    with concurrent.futures.ThreadPoolExecutor(max_workers=2) as ex:
        for prof, b, (rc, so, se, dt) in ex.map(one, ["dev", "release"]):
            lines = so.splitlines()
            m = re.search(r"deep: (\d+) cases", so)
            bad = [l for l in lines if l.startswith("panic ")]
            if rc != 0 and not m:
                last = next((l for l in reversed(lines) if l.startswith("start ")), None)
                if last is None:
                    raise Machinery("deep leg (%s) failed to run: rc=%d %s" % (prof, rc, se[-800:]))
                bad.append(last)
            for l in bad[:3]:
                a = l.split()
                path = write_replay("C01-deep-%s-%s-%s.json" % (prof, a[1], a[2]), {
                    "property": "C01", "kind": "deep", "profile": prof, "family": a[1], "variant": a[2], "size": size,
                    "what": "a parse of a %d-byte %s input (%s) on a thread with a 256 KiB stack %s (exit status %d): %s" % (
                        size, a[1], a[2], "panicked" if a[0] == "panic" else "killed the process", rc, se.strip().splitlines()[-1] if se.strip() else "")})
                res.add_violation(path, "deep (%s build): family %s / %s at %d bytes does not return normally" % (prof, a[1], a[2], size))
            if bad:
                continue
            n = int(m.group(1))
            res.states += n
            res.transitions += n
            items.append({"profile": prof, "cases": n, "wall_s": round(dt, 1)})
    res.engines.append({"engine": "stack-depth leg (digest deep): every size family x {complete, unterminated, error} at %d bytes, 256 KiB thread stack" % size,
                        "runs": items})


# ------------------------------------------------------------------------------------------
# cross-target leg: the digest binary interpreted by Miri for 32-bit and big-endian targets
# ------------------------------------------------------------------------------------------

XT_TARGETS = [("i686-unknown-linux-gnu", "32-bit little-endian"), ("s390x-unknown-linux-gnu", "64-bit big-endian"),
              ("mips-unknown-linux-gnu", "32-bit big-endian")]
XT_PARTS = ["request-fields", "reason-field", "header-fields", "header-strings-default", "header-strings-options",
            "request-lines", "status-lines", "chunk-sizes"]
XT_ALL = list(range(len(XT_PARTS)))
# property -> (parts, rule)
XT_RULES = {
    "C06": ([0, 5], "full"), "C07": ([1, 6], "full"), "C08": ([2, 3], "full"), "C14": ([4], "full"), "C09": ([7], "full"),
    "C13": (XT_ALL, "full"), "C03": (XT_ALL, "frame"), "C10": (XT_ALL, "errkind"), "C05": (XT_ALL, "hygiene"),
    "C04": (XT_ALL, "oob"), "C01": (XT_ALL, "panic"), "C11": (XT_ALL, "partial"),
}
MIRIFLAGS_BY_TIER = {
    # the quick tier trades Miri's typed-copy validity checks (its most expensive monitor, ~2x) for time;
    # bounds, dangling-pointer, alignment, aliasing (Stacked Borrows) and uninitialised-read checks stay on
    "quick": "-Zmiri-disable-isolation -Zmiri-disable-validation",
    "thorough": "-Zmiri-disable-isolation",
}


def xt_targets(tier):
    # quick: one 32-bit and one big-endian target; thorough adds the 32-bit big-endian one
    return XT_TARGETS[:2] if tier == "quick" else XT_TARGETS


def xt_hash(tier):
    h = hashlib.sha1()
    files = []
    for root, _, names in os.walk(os.path.join(REPO, "src")):
        files += [os.path.join(root, n) for n in names]
    files += [os.path.join(REPO, "build.rs"), os.path.join(REPO, "Cargo.toml")]
    for root, _, names in os.walk(os.path.join(HARNESS, "digest")):
        files += [os.path.join(root, n) for n in names if n.endswith((".rs", ".toml"))]
    for f in sorted(files):
        h.update(f.encode())
        with open(f, "rb") as fh:
            h.update(fh.read())
    h.update((tier + MIRIFLAGS_BY_TIER[tier] + "v5").encode())
    return h.hexdigest()[:20]


def miri_cmd(target, args):
    cmd = ["cargo", "+nightly", "miri", "run", "-q", "--offline", "-p", "digest", "--target", target]
    if REPO != "/repo":
        cmd += ["--config", 'paths=["%s"]' % REPO]
    return cmd + ["--"] + args


def miri_env(tier="thorough"):
    e = dict(ENV)
    e["MIRIFLAGS"] = MIRIFLAGS_BY_TIER[tier]
    return e


def xt_shards(native, tier):
    rc, so, se, _ = run([native, "xsizes", tier], timeout=120)
    if rc != 0:
        raise Machinery("digest xsizes failed: %s" % se[-400:])
    per = 300 if tier == "quick" else 1500
    out = []
    for l in so.splitlines():
        p, _, n = l.split()
        k = max(1, -(-int(n) // per))
        out += [(int(p), s, k) for s in range(k)]
    return out


def xt_compute(tier):
    """Runs the cross-target corpus natively and under Miri for every target; returns the table."""
    native = build_variant("runtime", "release")
    shards = xt_shards(native, tier)
    grid = ("3", "9", "small") if tier == "quick" else ("5", "16", "full")
    table = {"tier": tier, "shards": shards, "native": {}, "targets": {}, "grid": {}, "ub": []}
    for (p, s, k) in shards:
        rc, so, se, _ = run([native, "xrun", tier, str(p), str(s), str(k)], timeout=600)
        if rc != 0:
            raise Machinery("native xrun failed: %s" % se[-400:])
        table["native"]["%d/%d/%d" % (p, s, k)] = so.splitlines()[0]
    # compile once per target (the parallel runs below then only execute)
    def warm(t):
        return t, run(miri_cmd(t, ["xsizes", "quick"]), cwd=HARNESS, env=miri_env(tier), timeout=1800)
    with concurrent.futures.ThreadPoolExecutor(max_workers=3) as ex:
        for t, (rc, so, se, dt) in ex.map(warm, [t for t, _ in xt_targets(tier)]):
            if rc != 0:
                raise Machinery("Miri cannot build/run the digest binary for %s:\n%s" % (t, se[-1500:]))
    jobs = []
    for t, _ in xt_targets(tier):
        for (p, s, k) in shards:
            jobs.append((t, "part", (p, s, k), ["xrun", tier, str(p), str(s), str(k)]))
        for c in range(3):
            jobs.append((t, "grid", c, ["scangrid", grid[0], grid[1], str(c), grid[2]]))

    def one(job):
        t, kind, key, args = job
        return job, run(miri_cmd(t, args), cwd=HARNESS, env=miri_env(tier), timeout=7200)

    t0 = time.time()
    with concurrent.futures.ThreadPoolExecutor(max_workers=os.cpu_count() or 16) as ex:
        for (t, kind, key, args), (rc, so, se, dt) in ex.map(one, jobs):
            tt = table["targets"].setdefault(t, {})
            ub = "Undefined Behavior" in se or "error: unsupported operation" in se or (rc != 0 and kind == "part")
            if kind == "part":
                p, s, k = key
                line = so.splitlines()[0] if so.splitlines() else ""
                tt["%d/%d/%d" % (p, s, k)] = line
                if ub or not line:
                    table["ub"].append({"target": t, "part": p, "shard": s, "nshards": k, "stderr": se[-1500:], "exit": rc})
            else:
                m = re.search(r"scangrid (\d+) (\d+)", so)
                table["grid"]["%s/%d" % (t, key)] = {"runs": int(m.group(1)) if m else 0, "bad": int(m.group(2)) if m else -1,
                                                    "first": [l for l in so.splitlines() if l.startswith("SCAN")][:3], "exit": rc,
                                                    "stderr": "" if m else se[-1500:], "args": args}
    table["wall_s"] = round(time.time() - t0, 1)
    return table


def xt_table(tier):
    d = os.path.join(TARGET, "xcache")
    os.makedirs(d, exist_ok=True)
    path = os.path.join(d, "%s-%s.json" % (xt_hash(tier), tier))
    if os.path.exists(path):
        with open(path) as f:
            t = json.load(f)
        t["cached"] = True
        return t
    t = xt_compute(tier)
    tmp = path + ".%d" % os.getpid()
    with open(tmp, "w") as f:
        json.dump(t, f)
    os.replace(tmp, path)
    t["cached"] = False
    return t


def xt_parse_dump(text):
    rows = {}
    for l in text.splitlines():
        a = l.split()
        if len(a) < 6 or "=" not in l:
            continue
        key = " ".join(a[:4])
        kv = dict(x.split("=", 1) for x in re.findall(r"(\w+=(?:\[[^\]]*\]|\S+))", l))
        rows[key] = (l, kv)
    return rows


def xt_offender(rule, nrow, trow):
    """Does this input violate the property, given its native and cross-target result lines?"""
    (nl, n), (tl, t) = nrow, trow
    if rule == "full":
        return (n["st"], n["n"], n["fields"]) != (t["st"], t["n"], t["fields"])
    if rule == "frame":
        return n["frame"] != t["frame"] and "E" not in (n["frame"], t["frame"]) and "PANIC" not in (n["frame"], t["frame"])
    if rule == "partial":
        # native Err (the native result is checked against the reference grammar): Partial is not honest
        return t["frame"] == "P" and n["frame"] == "E"
    if rule == "errkind":
        return n["errkind"] != t["errkind"] and ((n["errkind"] != "0" and t["errkind"] != "0") or "7" in (n["errkind"], t["errkind"]))
    if rule == "hygiene":
        return t["hygiene_bad"] == "1"
    if rule == "oob":
        return t["out_of_buffer"] == "1"
    if rule == "panic":
        return t["frame"] == "PANIC"
    return False


def run_xtarget(res, prop):
    """Results on targets this host cannot execute: the digest binary interpreted by Miri."""
    tier = res.tier
    table = xt_table(tier)
    native = build_variant("runtime", "release")
    col = {"full": 2, "frame": 3, "partial": 3, "errkind": 4, "hygiene": 5, "oob": 6, "panic": 7}
    total = 0
    if prop == "C12" or prop == "C13" or prop == "C01":
        for key, g in sorted(table["grid"].items()):
            t, c = key.rsplit("/", 1)
            if g["bad"] < 0:
                if prop == "C01" and ("Undefined Behavior" in g["stderr"]):
                    path = write_replay("C01-xtarget-grid-%s-%s.json" % (t, c), {"property": "C01", "kind": "xtarget-grid", "target": t, "args": g["args"],
                                                                                 "what": "Miri reports undefined behaviour in a scanner on %s" % t, "report": g["stderr"]})
                    res.add_violation(path, "Miri (%s): undefined behaviour in the scanner grid" % t)
                    continue
                raise Machinery("scanner grid under Miri (%s class %s) did not run: %s" % (t, c, g["stderr"][-600:]))
            total += g["runs"]
            if g["bad"] > 0 and prop in ("C12", "C13"):
                path = write_replay("%s-xtarget-grid-%s-%s.json" % (prop, t, c), {"property": prop, "kind": "xtarget-grid", "target": t, "args": g["args"],
                                                                                "what": "a scanner stops at the wrong byte on %s: %s" % (t, g["first"][:1])})
                res.add_violation(path, "scanner grid on %s: %d wrong stop positions, first: %s" % (t, g["bad"], g["first"][:1]))
    parts, rule = XT_RULES.get(prop, ([], None))
    compared = 0
    for t, tdesc in xt_targets(tier):
        if rule is None:
            break
        reported = 0
        for (p, s, k) in table["shards"]:
            if p not in parts:
                continue
            key = "%d/%d/%d" % (p, s, k)
            nl = table["native"][key].split()
            tl = (table["targets"][t].get(key) or "").split()
            died = [u for u in table["ub"] if u["target"] == t and u["part"] == p and u["shard"] == s]
            if died and prop == "C01":
                path = write_replay("C01-xtarget-%s-%d-%d.json" % (t, p, s), {"property": "C01", "kind": "xtarget-shard", "target": t, "tier": tier, "part": p, "shard": s, "nshards": k,
                                                                              "what": "the interpreted run on %s ended abnormally (undefined behaviour, abort or unsupported operation)" % t, "report": died[0]["stderr"]})
                res.add_violation(path, "Miri (%s, part %s): %s" % (t, XT_PARTS[p], (died[0]["stderr"].strip().splitlines() or ["abnormal end"])[-1][:200]))
                continue
            if len(tl) < 8:
                if died:
                    continue  # reported under C01
                raise Machinery("no result line for %s %s" % (t, key))
            compared += int(nl[1])
            same = nl[col[rule]] == tl[col[rule]] if rule in ("full", "frame", "partial", "errkind") else tl[col[rule]] == "0"
            if same or reported >= 3:
                continue
            # narrow down to one input
            rc, so, se, _ = run([native, "xdump", tier, str(p), str(s), str(k)], timeout=600)
            rc2, so2, se2, _ = run(miri_cmd(t, ["xdump", tier, str(p), str(s), str(k)]), cwd=HARNESS, env=miri_env(tier), timeout=7200)
            nrows, trows = xt_parse_dump(so), xt_parse_dump(so2)
            for key2, nrow in nrows.items():
                trow = trows.get(key2)
                if trow is None or not xt_offender(rule, nrow, trow):
                    continue
                e, cfg, cap, hx = key2.split()
                path = write_replay("%s-xtarget-%s-%s.json" % (prop, t.split("-")[0], hashlib.sha1(key2.encode()).hexdigest()[:12]), {
                    "property": prop, "kind": "xtarget", "target": t, "target_kind": tdesc, "rule": rule, "entry": e, "config": int(cfg), "capacity": int(cap), "input_hex": hx,
                    "input": bytes.fromhex(hx).decode("latin-1"), "native": nrow[0], "cross": trow[0],
                    "what": "on %s (%s, interpreted by Miri) the result differs from the native one in a way %s forbids" % (t, tdesc, prop)})
                res.add_violation(path, "%s (%s): %s" % (t, tdesc, trow[0][:160]))
                reported += 1
                break
    res.states += compared + total
    res.transitions += compared + total
    res.engines.append({"engine": "cross-target leg: digest binary interpreted by Miri (MIRIFLAGS=%s)" % MIRIFLAGS_BY_TIER[tier],
                        "targets": ["%s (%s)" % x for x in xt_targets(tier)], "rule": rule, "parts": [XT_PARTS[p] for p in parts],
                        "inputs_compared_per_target": compared // max(1, len(xt_targets(tier))), "scanner_grid_executions": total,
                        "table_cached": table.get("cached", False), "interpretation_wall_s": table.get("wall_s")})


def run_giant(res, prop):
    """Offsets beyond 32 bits: three heads with one 4 GiB header value (thorough tier; needs ~4.1 GiB)."""
    binary = build_variant("runtime", "release")
    rc, so, se, dt = run([binary, "giant"], timeout=1800)
    if "giant skipped" in so:
        res.engines.append({"engine": "giant leg", "skipped": so.strip()})
        return
    m = re.search(r"giant: 3 heads", so)
    if rc == 1 and "GIANT" in so:
        first = [l for l in so.splitlines() if l.startswith("GIANT")][0]
        path = write_replay("%s-giant.json" % prop, {"property": prop, "kind": "giant", "what": "a head with a 4 GiB header value: " + first})
        res.add_violation(path, first[:200])
        return
    if rc != 0 or not m:
        raise Machinery("giant leg failed to run: rc=%d %s" % (rc, se[-500:]))
    res.states += 3
    res.transitions += 3
    res.engines.append({"engine": "giant leg: request / response / parse_headers with one header value of 4 GiB + 16 bytes; offset, name and value ranges compared with the construction", "wall_s": round(dt, 1)})


# ------------------------------------------------------------------------------------------
# dispatch
# ------------------------------------------------------------------------------------------

def run_for(prop, tier, res):
    extra = []
    if prop == "C18":
        run_histories(res, "reuse", "C18")
        extra.append("histories: <= %d earlier calls drawn from the buffer tables (28 request, 27 response, 14 header-block buffers; every error kind occurs; long targets and reasons of equal length) x %d entry points per message kind, capacities 0..3; canonicalised by the snapshot of everything a later call can read, cross-checked by an un-canonicalised search one level shallower" % ((3, 3) if tier == "quick" else (4, 4)))
    elif prop == "C17":
        run_histories(res, "reuse", "C17")
    elif prop == "C16":
        run_histories(res, "reuse", "C16")
        extra.append("entry-point agreement is also checked on re-used values: every history of <= 3 (4) earlier calls, initialised-array against uninit entry point of the same configuration")
    elif prop == "C02":
        run_histories(res, "delivery", "C02")
    elif prop == "C13":
        run_lattice(res, "C13")
        if not res.violations:
            run_digests(res, "C13")
        run_loom(res)
        if not res.violations:
            run_race(res)
        # the cfg lattice keys on the architecture too: 32-bit x86 with each target-feature set, aarch64
        run_cross_targets(res, "C13", ["i686", "i686-sse42", "i686-avx2", "aarch64"] + ([] if tier == "quick" else ["core-only"]))
        extra.append("loom explores the C11 model of the one atomic; avx2/sse42/swar are stubs that record which backend ran on the simulated CPU")
        extra.append("thread timing is decided by loom's exhaustive schedules, not by racing free-running processes (that would be sampling)")
    elif prop == "C01":
        run_memcheck(res)
        if not res.violations:
            run_deep(res)
        extra.append("guard pages see reads past a page-flush buffer end/start; the memcheck leg sees any read outside an exact-size heap buffer on its (smaller) enumerated corpus")
    elif prop == "C09":
        run_digests(res, "C09", partitions=[18, 19])
        extra.append("profile leg: chunk-size partitions of the digest corpus under release and dev (debug assertions) builds of every variant")
    elif prop == "C19":
        run_lattice(res, "C19")
        run_cross_targets(res, "C19", ["core-only", "core-only-i686", "core-only-aarch64", "core-only-riscv32"])
        extra.append("allocation: a counting #[global_allocator] in the explorer, per-thread counter read around every call")
    elif prop == "C04":
        run_lifetimes(res)
        extra.append("static half decided on a finite generated corpus of client programs with rustc as the judge; not a proof over all safe programs")
    elif prop == "C20":
        run_cachegrind(res)
        extra.append("cursor counters see work done through the cursor API; the instruction-count leg sees everything, on 3 sizes per family")
    if prop in ("C04", "C03") and tier != "quick" and not res.violations:
        run_giant(res, prop)
        extra.append("offsets beyond 2^32 are exercised by the giant leg only (three inputs, thorough tier)")
    if (prop in XT_RULES or prop == "C12") and not res.violations:
        run_xtarget(res, prop)
        extra.append("32-bit and big-endian targets are not executed natively: the cross-target leg interprets a reduced corpus with Miri (i686, s390x, mips) and compares with the native run")
    return extra


def replay(rep, path):
    kind = rep.get("kind")
    if kind == "history":
        binary = check.cargo_build("histories", "release")
        rc, so, se, _ = run([binary, "instance" if rep.get("model", "").endswith("-instance") else "replay", path], timeout=1800)
        print(so, end="")
        return rc
    if kind == "loom":
        binary = check.cargo_build("rtloom", "release")
        rc, so, se, _ = run([binary, rep["cpu"], str(rep["threads"]), str(rep["calls"])], timeout=3000)
        print(se[-3000:])
        print("loom exploration of cpu=%s %dx%d: %s" % (rep["cpu"], rep["threads"], rep["calls"], "FAILS again" if rc != 0 else "passes"))
        return 1 if rc != 0 else 0
    if kind == "build":
        if "cross" in rep:
            env = dict(ENV)
            env.update(rep.get("env") or {})
            env["CARGO_TARGET_DIR"] = os.path.join(TARGET, "cross", rep["cross"])
            rc, so, se, _ = run(rep["cmd"], cwd=REPO, env=env, timeout=1800)
        else:
            name, cmd, env = lattice_cmd(tuple(rep["point"]))
            rc, so, se, _ = run(cmd, cwd=REPO, env=env, timeout=1200)
        print(se[-3000:])
        return 1 if rc != 0 else 0
    if kind == "digest":
        outs = []
        for side in ("a", "b"):
            s = rep[side]
            b = build_variant(s["variant"], s["profile"])
            rc, so, se, _ = run([b, "one", rep["entry"], str(rep["config"]), str(rep["capacity"]), rep["input_hex"], "--backend", s["backend"]])
            print("%-45s %s" % (s["label"], so.strip()))
            outs.append(so.strip())
        return 1 if outs[0] != outs[1] else 0
    if kind == "program":
        rlib, deps = build_rlib()
        workdir = os.path.join(TARGET, "lifetimes-replay-%d" % os.getpid())
        os.makedirs(workdir, exist_ok=True)
        try:
            rc, codes, msgs = compile_program(rep["source"], rlib, deps, workdir, 0)
        finally:
            shutil.rmtree(workdir, ignore_errors=True)
        print(rep["source"])
        print("rustc: %s %s" % ("accepts" if rc == 0 else "rejects", codes))
        if rep["expect"] == "reject":
            return 1 if rc == 0 else 0
        return 1 if rc != 0 else 0
    if kind == "race":
        binary = build_variant("runtime", "release")
        for i in range(5 * rep.get("processes", 24)):
            rc, so, se, _ = run([binary, "race", "16"], timeout=120)
            if rc == 1:
                print(so)
                print("reproduced in fresh process number %d" % (i + 1))
                return 1
        print("no mismatch in %d fresh processes (a race: not every schedule shows it)" % (5 * rep.get("processes", 24)))
        return 0
    if kind == "backend-selection":
        b = build_variant(rep["variant"], rep["profile"])
        got = run([b, "info"])[1].strip()
        print("variant %s: build selects %r, documented %r" % (rep["variant"], got, rep["expected"]))
        return 1 if got != rep["expected"] else 0
    if kind == "xtarget":
        native = build_variant("runtime", "release")
        args = ["xone", rep["entry"], str(rep["config"]), str(rep["capacity"]), rep["input_hex"]]
        rc, so, se, _ = run([native] + args, timeout=120)
        rc2, so2, se2, _ = run(miri_cmd(rep["target"], args), cwd=HARNESS, env=miri_env(), timeout=3000)
        print("native : %s" % so.strip())
        print("%s: %s" % (rep["target"], so2.strip() or se2[-1500:]))
        n, t = xt_parse_dump(so), xt_parse_dump(so2)
        if not t:
            return 1
        k = next(iter(n))
        return 1 if xt_offender(rep["rule"], n[k], t[k]) else 0
    if kind == "xtarget-grid":
        rc, so, se, _ = run(miri_cmd(rep["target"], rep["args"]), cwd=HARNESS, env=miri_env(), timeout=7200)
        print("\n".join(so.splitlines()[-8:]))
        print(se[-1500:])
        return 0 if rc == 0 else 1
    if kind == "xtarget-shard":
        rc, so, se, _ = run(miri_cmd(rep["target"], ["xrun", rep["tier"], str(rep["part"]), str(rep["shard"]), str(rep["nshards"])]), cwd=HARNESS, env=miri_env(), timeout=7200)
        print(so)
        print(se[-2500:])
        return 0 if rc == 0 else 1
    if kind == "giant":
        rc, so, se, _ = run([build_variant("runtime", "release"), "giant"], timeout=1800)
        print(so)
        return 1 if rc == 1 else 0
    if kind == "deep":
        b = build_variant("runtime", rep["profile"])
        rc, so, se, _ = run([b, "deep", str(rep["size"]), rep["family"]], timeout=3000)
        print("\n".join(so.splitlines()[-6:]))
        print("\n".join(se.splitlines()[-4:]))
        bad = rc != 0 or any(l.startswith("panic ") for l in so.splitlines())
        print("exit status %d" % rc)
        return 1 if bad else 0
    if kind == "memcheck":
        binary = build_variant("runtime", "release")
        rc, so, se, _ = run(["valgrind", "-q", "--error-exitcode=9", "--partial-loads-ok=no", binary, "memcheck", str(rep["lmax"]), "--backend", rep["backend"]], timeout=3000)
        print("\n".join(se.splitlines()[:30]))
        return 1 if rc == 9 else 0
    if kind == "work-capacity":
        binary = build_variant("runtime", "release")
        vals = []
        for c in (64, 4096, 262144):
            rc, so, se, _ = run(CALLGRIND + [binary, "work", rep["family"], "2048", "complete", str(c)])
            vals.append(int(re.search(r"Collected\s*:\s*(\d+)", se).group(1)))
        print("family %s, 2 KiB buffer, capacities 64/4096/262144: instructions %s" % (rep["family"], vals))
        return 1 if vals[2] > vals[1] * 1.10 + 2000 else 0
    if kind == "work":
        binary = build_variant("runtime", "release")
        vals = []
        for m in (1, 2, 4):
            rc, so, se, _ = run(CALLGRIND + [binary, "work", rep["family"], str(rep["base"] * m), rep.get("variant", "complete")])
            vals.append(int(re.search(r"Collected\s*:\s*(\d+)", se).group(1)))
        ratio = (vals[2] - vals[1]) / max(vals[1] - vals[0], 1)
        print("family %s: instructions %s, increment ratio %.2f" % (rep["family"], vals, ratio))
        return 1 if ratio > 2.5 else 0
    print("no replay handler for kind %r" % kind)
    return 2
