"""S7 — generated corpus of minimal client programs for the static half of C04.

corpus() -> list of (name, "reject" | "compile", rust source)

must-reject: programs that would let a returned field outlive or alias-mutate the buffer it points
into, or a `headers` slice outlive / alias its array. They must be rejected by the borrow checker.
must-compile: usage patterns that have to keep compiling.
"""

REQ = 'b"GET /x HTTP/1.1\\r\\nA: b\\r\\n\\r\\n"'
RESP = 'b"HTTP/1.1 200 OK\\r\\nA: b\\r\\n\\r\\n"'
HDRS = 'b"A: b\\r\\n\\r\\n"'

PRELUDE = """#![allow(unused, dead_code)]
use httparse::{Header, ParserConfig, Request, Response, Status, EMPTY_HEADER, parse_headers};
use std::mem::MaybeUninit;
fn uninit_array<'a>() -> [MaybeUninit<Header<'a>>; 4] { [MaybeUninit::uninit(), MaybeUninit::uninit(), MaybeUninit::uninit(), MaybeUninit::uninit()] }
"""

# entry points: (id, kind, needs uninit array, call expression template using {v} value, {buf}, {un})
ENTRIES = [
    ("req_parse", "req", False, "{v}.parse({buf})"),
    ("cfg_parse_request", "req", False, "ParserConfig::default().parse_request(&mut {v}, {buf})"),
    ("req_parse_uninit", "req", True, "{v}.parse_with_uninit_headers({buf}, {un})"),
    ("cfg_parse_request_uninit", "req", True, "ParserConfig::default().parse_request_with_uninit_headers(&mut {v}, {buf}, {un})"),
    ("resp_parse", "resp", False, "{v}.parse({buf})"),
    ("cfg_parse_response", "resp", False, "ParserConfig::default().parse_response(&mut {v}, {buf})"),
    ("cfg_parse_response_uninit", "resp", True, "ParserConfig::default().parse_response_with_uninit_headers(&mut {v}, {buf}, {un})"),
]

# fields: (id, type, expression on value v, use expression)
REQ_FIELDS = [
    ("method", "Option<&str>", "{v}.method", "f.map_or(0, |s| s.len())"),
    ("path", "Option<&str>", "{v}.path", "f.map_or(0, |s| s.len())"),
    ("header_name", "&str", "{v}.headers[0].name", "f.len()"),
    ("header_value", "&[u8]", "{v}.headers[0].value", "f.len()"),
    ("header_copy", "Header", "{v}.headers[0]", "f.name.len()"),
]
RESP_FIELDS = [
    ("reason", "Option<&str>", "{v}.reason", "f.map_or(0, |s| s.len())"),
    ("header_name", "&str", "{v}.headers[0].name", "f.len()"),
    ("header_value", "&[u8]", "{v}.headers[0].value", "f.len()"),
    ("header_copy", "Header", "{v}.headers[0]", "f.name.len()"),
]


def new_value(kind, uninit):
    ty = "Request" if kind == "req" else "Response"
    if uninit:
        return "let mut empty: [Header; 0] = [];\n    let mut v = %s::new(&mut empty);\n    let mut un = uninit_array();" % ty
    return "let mut headers = [EMPTY_HEADER; 4];\n    let mut v = %s::new(&mut headers);" % ty


def corpus():
    progs = []

    def add(name, must, body):
        progs.append((name, must, PRELUDE + body))

    for eid, kind, uninit, call in ENTRIES:
        text = REQ if kind == "req" else RESP
        fields = REQ_FIELDS if kind == "req" else RESP_FIELDS
        callx = call.format(v="v", buf="&buf", un="&mut un")
        for fid, fty, fexpr, use in fields:
            fx = fexpr.format(v="v")
            # (a) the buffer is dropped while the field is still used
            add("%s__%s__buffer_dropped" % (eid, fid), "reject", """
pub fn f() -> usize {
    %s
    let f;
    {
        let buf: Vec<u8> = %s.to_vec();
        let _ = %s;
        f = %s;
    }
    %s
}
""" % (new_value(kind, uninit), text, callx, fx, use))
            # (b) the buffer is mutated while the field is still used
            add("%s__%s__buffer_mutated" % (eid, fid), "reject", """
pub fn f() -> usize {
    let mut buf: Vec<u8> = %s.to_vec();
    %s
    let _ = %s;
    let f = %s;
    buf[0] = b'X';
    %s
}
""" % (text, new_value(kind, uninit), callx, fx, use))
            # (d) the field is handed out as 'static although the buffer is not
            if fid != "header_copy":
                sty = fty.replace("&", "&'static ")
                add("%s__%s__returned_static" % (eid, fid), "reject", """
pub fn f(buf: &[u8]) -> %s {
    %s
    let _ = %s;
    %s
}
""" % (sty, new_value(kind, uninit), call.format(v="v", buf="buf", un="&mut un"), fx))
            # must compile: the field outlives the value and the header array, not the buffer
            if not uninit:
                add("%s__%s__outlives_value_ok" % (eid, fid), "compile", """
pub fn f() -> usize {
    let buf: Vec<u8> = %s.to_vec();
    let f;
    {
        %s
        let _ = %s;
        f = %s;
    }
    %s
}
""" % (text, new_value(kind, uninit).replace("\n    ", "\n        "), callx, fx, use))
        ty = "Request" if kind == "req" else "Response"
        # (e) the header array is dropped while `headers` is still used
        if uninit:
            add("%s__headers__array_dropped" % eid, "reject", """
pub fn f() -> usize {
    let buf: Vec<u8> = %s.to_vec();
    let mut empty: [Header; 0] = [];
    let mut v = %s::new(&mut empty);
    {
        let mut un = uninit_array();
        let _ = %s;
    }
    v.headers.len()
}
""" % (text, ty, callx))
            # (c) the uninit array is written while `headers` is still used
            add("%s__headers__array_written" % eid, "reject", """
pub fn f() -> usize {
    let buf: Vec<u8> = %s.to_vec();
    let mut empty: [Header; 0] = [];
    let mut v = %s::new(&mut empty);
    let mut un = uninit_array();
    let _ = %s;
    un[0] = MaybeUninit::uninit();
    v.headers.len()
}
""" % (text, ty, callx))
            add("%s__headers__array_read_while_borrowed" % eid, "reject", """
pub fn f() -> usize {
    let buf: Vec<u8> = %s.to_vec();
    let mut empty: [Header; 0] = [];
    let mut v = %s::new(&mut empty);
    let mut un = uninit_array();
    let _ = %s;
    let alias = &mut un;
    let n = v.headers.len();
    alias.len() + n
}
""" % (text, ty, callx))
            add("%s__uninit_usage_ok" % eid, "compile", """
pub fn f() -> usize {
    let buf: Vec<u8> = %s.to_vec();
    let mut empty: [Header; 0] = [];
    let mut v = %s::new(&mut empty);
    let mut un = uninit_array();
    match %s {
        Ok(Status::Complete(n)) => n + v.headers.len(),
        _ => 0,
    }
}
""" % (text, ty, callx))
        else:
            add("%s__headers__array_dropped" % eid, "reject", """
pub fn f() -> usize {
    let buf: Vec<u8> = %s.to_vec();
    let mut v;
    {
        let mut headers = [EMPTY_HEADER; 4];
        v = %s::new(&mut headers);
        let _ = %s;
    }
    v.headers.len()
}
""" % (text, ty, callx))
            add("%s__headers__array_written" % eid, "reject", """
pub fn f() -> usize {
    let buf: Vec<u8> = %s.to_vec();
    let mut headers = [EMPTY_HEADER; 4];
    let mut v = %s::new(&mut headers);
    let _ = %s;
    headers[0] = EMPTY_HEADER;
    v.headers.len()
}
""" % (text, ty, callx))
            # (g) the array keeps headers of a buffer that is gone
            add("%s__array__outlives_buffer" % eid, "reject", """
pub fn f() -> usize {
    let mut headers = [EMPTY_HEADER; 4];
    {
        let buf: Vec<u8> = %s.to_vec();
        let mut v = %s::new(&mut headers);
        let _ = %s;
    }
    headers[0].name.len()
}
""" % (text, ty, callx))

    # parse_headers
    add("parse_headers__slice__array_dropped", "reject", """
pub fn f() -> usize {
    let buf: Vec<u8> = %s.to_vec();
    let r;
    {
        let mut headers = [EMPTY_HEADER; 4];
        r = parse_headers(&buf, &mut headers);
    }
    match r { Ok(Status::Complete((n, hs))) => n + hs.len(), _ => 0 }
}
""" % HDRS)
    add("parse_headers__slice__array_written", "reject", """
pub fn f() -> usize {
    let buf: Vec<u8> = %s.to_vec();
    let mut headers = [EMPTY_HEADER; 4];
    let r = parse_headers(&buf, &mut headers);
    headers[0] = EMPTY_HEADER;
    match r { Ok(Status::Complete((n, hs))) => n + hs.len(), _ => 0 }
}
""" % HDRS)
    add("parse_headers__slice__buffer_dropped", "reject", """
pub fn f() -> usize {
    let mut headers = [EMPTY_HEADER; 4];
    let r;
    {
        let buf: Vec<u8> = %s.to_vec();
        r = parse_headers(&buf, &mut headers);
    }
    match r { Ok(Status::Complete((n, hs))) => n + hs.len(), _ => 0 }
}
""" % HDRS)
    add("parse_headers__name__buffer_mutated", "reject", """
pub fn f() -> usize {
    let mut buf: Vec<u8> = %s.to_vec();
    let mut headers = [EMPTY_HEADER; 4];
    let name = match parse_headers(&buf, &mut headers) { Ok(Status::Complete((_, hs))) => hs[0].name, _ => "" };
    buf[0] = b'X';
    name.len()
}
""" % HDRS)
    add("parse_headers__value__returned_static", "reject", """
pub fn f(buf: &[u8]) -> &'static [u8] {
    let mut headers = [EMPTY_HEADER; 4];
    match parse_headers(buf, &mut headers) { Ok(Status::Complete((_, hs))) => hs[0].value, _ => b"" }
}
""")
    add("parse_headers__array__outlives_buffer", "reject", """
pub fn f() -> usize {
    let mut headers = [EMPTY_HEADER; 4];
    {
        let buf: Vec<u8> = %s.to_vec();
        let _ = parse_headers(&buf, &mut headers);
    }
    headers[0].value.len()
}
""" % HDRS)
    add("parse_headers__header_outlives_array_ok", "compile", """
pub fn f() -> usize {
    let buf: Vec<u8> = %s.to_vec();
    let h: Header;
    {
        let mut headers = [EMPTY_HEADER; 4];
        h = match parse_headers(&buf, &mut headers) { Ok(Status::Complete((_, hs))) => hs[0], _ => EMPTY_HEADER };
    }
    h.name.len() + h.value.len()
}
""" % HDRS)


    # the doc-hidden helper API (`httparse::_benchable`): the cursor type and the start-line
    # helpers hand out slices too, and must tie them to the buffer the cursor was made from
    helpers = [
        ("parse_method", "&str", 'b"GET /x HTTP/1.1\\r\\n"', "match httparse::_benchable::parse_method(&mut c) { Ok(httparse::Status::Complete(m)) => m, _ => \"\" }"),
        ("parse_uri", "&str", 'b"/x/y HTTP/1.1\\r\\n"', "match httparse::_benchable::parse_uri(&mut c) { Ok(httparse::Status::Complete(m)) => m, _ => \"\" }"),
        ("bytes_slice", "&[u8]", 'b"abc def"', "{ let _ = c.next(); let _ = c.next(); c.slice() }"),
        ("bytes_peek_n", "&[u8; 4]", 'b"abcdefgh"', "c.peek_n::<&[u8; 4]>(4).unwrap()"),
    ]
    for hid, hty, text, expr in helpers:
        if hid == "bytes_peek_n":
            # peek_n borrows the cursor as well ('b: 'a): only the buffer-side programs apply
            pass
        add("benchable_%s__buffer_dropped" % hid, "reject", """
pub fn f() -> usize {
    let f;
    {
        let buf: Vec<u8> = %s.to_vec();
        let mut c = httparse::_benchable::Bytes::new(&buf);
        f = %s;
    }
    f.len()
}
""" % (text, expr))
        add("benchable_%s__buffer_mutated" % hid, "reject", """
pub fn f() -> usize {
    let mut buf: Vec<u8> = %s.to_vec();
    let mut c = httparse::_benchable::Bytes::new(&buf);
    let f = %s;
    buf[0] = b'X';
    f.len()
}
""" % (text, expr))
        add("benchable_%s__returned_static" % hid, "reject", """
pub fn f(buf: &[u8]) -> %s {
    let mut c = httparse::_benchable::Bytes::new(buf);
    %s
}
""" % (hty.replace("&", "&'static "), expr))
        if hid != "bytes_peek_n":
            add("benchable_%s__outlives_cursor_ok" % hid, "compile", """
pub fn f() -> usize {
    let buf: Vec<u8> = %s.to_vec();
    let f;
    {
        let mut c = httparse::_benchable::Bytes::new(&buf);
        f = %s;
    }
    f.len()
}
""" % (text, expr))
    add("benchable_bytes__cursor_outlives_buffer", "reject", """
pub fn f() -> Option<u8> {
    let c;
    {
        let buf: Vec<u8> = b"abc".to_vec();
        c = httparse::_benchable::Bytes::new(&buf);
    }
    c.peek()
}
""")

    # usage patterns that must keep compiling
    add("readme_loop_ok", "compile", """
pub fn f(chunks: &[&[u8]]) -> Option<usize> {
    let mut buf: Vec<u8> = Vec::new();
    for c in chunks {
        buf.extend_from_slice(c);
        let mut headers = [EMPTY_HEADER; 16];
        let mut req = Request::new(&mut headers);
        if let Status::Complete(n) = req.parse(&buf).ok()? {
            return Some(n + req.method?.len() + req.path?.len() + req.headers.len());
        }
    }
    None
}
""")
    add("reuse_value_across_buffers_ok", "compile", """
pub fn f(a: &[u8], b: &[u8]) -> usize {
    let mut headers = [EMPTY_HEADER; 8];
    let mut req = Request::new(&mut headers);
    let x = req.parse(a).is_ok() as usize;
    let y = req.parse(b).is_ok() as usize;
    x + y + req.headers.len()
}
""")
    add("static_buffer_stack_array_ok", "compile", """
static BUF: &[u8] = %s;
pub fn f() -> Option<&'static str> {
    let mut headers = [EMPTY_HEADER; 4];
    let mut req = Request::new(&mut headers);
    let _ = req.parse(BUF);
    req.method
}
""" % REQ)
    add("static_buffer_header_name_ok", "compile", """
static BUF: &[u8] = %s;
pub fn f() -> &'static str {
    let mut headers = [EMPTY_HEADER; 4];
    let mut resp = Response::new(&mut headers);
    let _ = resp.parse(BUF);
    resp.headers[0].name
}
""" % RESP)
    add("array_reused_after_value_dropped_ok", "compile", """
pub fn f(a: &[u8]) -> usize {
    let mut headers = [EMPTY_HEADER; 4];
    let n = { let mut req = Request::new(&mut headers); req.parse(a).is_ok() as usize };
    let m = { let mut resp = Response::new(&mut headers); resp.parse(a).is_ok() as usize };
    n + m + headers.len()
}
""")
    add("header_is_copy_ok", "compile", """
pub fn f(a: &[u8]) -> usize {
    let mut headers = [EMPTY_HEADER; 4];
    let mut req = Request::new(&mut headers);
    let _ = req.parse(a);
    let h0 = req.headers[0];
    let h1 = h0;
    h0.name.len() + h1.value.len()
}
""")
    add("buffer_reusable_after_fields_dead_ok", "compile", """
pub fn f() -> usize {
    let mut buf: Vec<u8> = %s.to_vec();
    let n = {
        let mut headers = [EMPTY_HEADER; 4];
        let mut req = Request::new(&mut headers);
        let _ = req.parse(&buf);
        req.method.map_or(0, |m| m.len())
    };
    buf.clear();
    n + buf.len()
}
""" % REQ)
    add("parse_headers_result_used_ok", "compile", """
pub fn f(buf: &[u8]) -> usize {
    let mut headers = [EMPTY_HEADER; 4];
    match parse_headers(buf, &mut headers) {
        Ok(Status::Complete((n, hs))) => n + hs.iter().map(|h| h.name.len() + h.value.len()).sum::<usize>(),
        _ => 0,
    }
}
""")
    add("response_fields_outlive_value_ok", "compile", """
pub fn f(buf: &[u8]) -> (Option<&str>, Option<u16>) {
    let mut headers = [EMPTY_HEADER; 4];
    let mut resp = Response::new(&mut headers);
    let _ = resp.parse(buf);
    (resp.reason, resp.code)
}
""")
    add("request_fields_returned_with_buffer_lifetime_ok", "compile", """
pub fn f<'b>(buf: &'b [u8]) -> (Option<&'b str>, Option<&'b str>) {
    let mut headers = [EMPTY_HEADER; 4];
    let mut req = Request::new(&mut headers);
    let _ = req.parse(buf);
    (req.method, req.path)
}
""")
    add("headers_collected_with_buffer_lifetime_ok", "compile", """
pub fn f<'b>(buf: &'b [u8]) -> Vec<Header<'b>> {
    let mut headers = [EMPTY_HEADER; 4];
    let mut req = Request::new(&mut headers);
    let _ = req.parse(buf);
    req.headers.to_vec()
}
""")
    add("chunk_size_ok", "compile", """
pub fn f(buf: &[u8]) -> u64 {
    match httparse::parse_chunk_size(buf) { Ok(Status::Complete((_, n))) => n, _ => 0 }
}
""")
    return progs


if __name__ == "__main__":
    c = corpus()
    print(len(c), "programs;", sum(1 for p in c if p[1] == "reject"), "must reject")
