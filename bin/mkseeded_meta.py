#!/usr/bin/env python3
"""Writes /verif/seeded/<id>/meta.json from the table below and the catch results in
/verif/seeded/RESULTS.txt (lines '<seeded id> <property> CAUGHT|MISSED ...')."""
import json
import os

SEEDED = os.path.join(os.path.dirname(os.path.dirname(os.path.abspath(__file__))), "seeded")
T = {
 "C01-1": ("C01", "AVX2 target scanner does one extra 32-byte load when 16..31 bytes remain (result clamped, so results are identical)", "AVX2 backend; 16..31 bytes left at the scan point; buffer ending within 16 bytes of unmapped memory"),
 "C01-2": ("C01", "chunk-size digit limit off by one in the 0-9 arm plus removal of the 'unreachable' overflow guard", "16 significant hex digits followed by a 17th decimal digit: panics on overflow in debug, wraps in release"),
 "C02-1": ("C02", "word-at-a-time value scanner breaks out when a block is rejected at lane 0 instead of re-testing the byte", "a legal HTAB in lane 0 of an 8-byte block, >= 8 bytes after it, fewer than 32 bytes left (AVX2 host): Complete flips to Err when body bytes are appended"),
 "C02-2": ("C02", "fold look-ahead at end of buffer no longer returns Partial", "obsolete folding on, header array exactly full, buffer ending right after a header's line end: Err(TooManyHeaders) that later becomes Partial/Complete"),
 "C03-1": ("C03", "ignored-line skipper reads the next byte before testing for LF", "ignore-invalid option on; a colon-less line ended by bare LF directly before the empty line: the terminator is swallowed"),
 "C03-2": ("C03", "space-before-first-header skip uses is_ascii_whitespace", "allow_space_before_first_header_name on; a whitespace-only first line: skip runs through the line end"),
 "C04-1": ("C04", "spaces-after-name branch no longer commits the slice start after the colon", "response with allow_spaces_after_header_name, SP/HTAB before the colon and no whitespace after it: value starts at the colon"),
 "C04-2": ("C04", "Bytes::new loses the buffer lifetime and parse_headers ties src to 'h instead of 'b", "client program keeping a parse_headers name/value after the buffer is freed or mutated compiles"),
 "C05-1": ("C05", "trailing trim strips SP/HTAB and CRLF pairs but never a lone LF", "folding on; folded value whose trailing continuation lines are whitespace-only and introduced by bare LF: value ends in LF"),
 "C05-2": ("C05", "bare-LF arm of the reason parser ignores the obs-text flag", "reason with a byte >= 0x80 and a status line ended by bare LF: invalid UTF-8 &str"),
 "C06-1": ("C06", "8-byte version compare only when more than 8 bytes remain", "buffer ending exactly on the 8th version byte with only that byte wrong: Partial instead of Err(Version)"),
 "C06-2": ("C06", "skip_spaces before the version is no longer guarded by the multi-space option", "default config, single SP after the method, run of SP before the version: accepted"),
 "C07-1": ("C07", "branch-less three-digit check tests only the high nibble", "one of ':;<=>?' in a code position with >= 3 bytes available: accepted as digit 10..15"),
 "C07-2": ("C07", "reason uses str::from_utf8(..).unwrap_or(\"\") instead of the obs-text flag", "reason whose high bytes form well-formed UTF-8 (a pair or longer sequence): returned verbatim"),
 "C08-1": ("C08", "HTAB-to-SP pre-pass in the word-at-a-time value scanner is exact only for the first tab of a block", "0x08 directly after an HTAB inside one 8-byte block scanned by the SWAR scanner: control byte accepted"),
 "C08-2": ("C08", "trailing trim predicate simplified to is_ascii_graphic", "value whose last non-OWS bytes are >= 0x80: they are trimmed away"),
 "C09-1": ("C09", "digit limit constant 16 admits a 17th digit", "exactly 17 digits; in debug only with a leading zero, in release any: size wraps"),
 "C09-2": ("C09", "whitespace arm guard simplified so that digits keep accumulating after whitespace", "hex digit after SP/HTAB and before ';'"),
 "C10-1": ("C10", "early exit with TooManyHeaders right after a header name when no slot is free", "array exactly full and one more line whose value is incomplete or invalid"),
 "C10-2": ("C10", "skip_empty_lines leaves a bare CR to the method/version parser", "bare CR followed by a non-LF byte among the leading empty lines: Token/Version instead of NewLine"),
 "C11-1": ("C11", "NUL on an ignored line reported only after the line ends", "ignore-invalid option; NUL on a skipped line; buffer ending before that line's LF: Partial without completion"),
 "C11-2": ("C11", "chunk-size digit-count check moved after the CRLF", ">= 17 digits and no CRLF yet: Partial instead of Err (in debug only for numerically small values)"),
 "C12-1": ("C12", "add-based range check in the word-at-a-time block functions lets a carry escape a 0xFF byte", "0xFF directly followed by 0x1F (value) / 0x20 (target) inside one 8-byte word of the SWAR scanner"),
 "C12-2": ("C12", "AVX2 scanners return the DEL position when the vector contains a DEL", "two offending bytes in one 32-byte vector, a below-range byte first and 0x7F later"),
 "C13-1": ("C13", "scalar target scanner folds four 8-byte blocks with AND before the range check", "scalar backend (forced, SIMD disabled or no_std), >= 32 bytes of target with a DEL in it"),
 "C13-2": ("C13", "chunk-size digit limit 16: release wraps where debug rejects", "exactly 17 digits, non-zero leading digit, release profile"),
 "C13-3": ("C13", "cfg on `mod avx2` simplified to not(sse42)", "compile-time +avx2 builds (which imply sse4.2) fail to compile"),
 "C14-1": ("C14", "ignored-line skipper treats 'no byte yet' after CR as a wrong byte", "ignore-invalid option; buffer cut exactly after the CR of a dropped line: Err instead of Partial"),
 "C14-2": ("C14", "space-before-first-header tied to a flag cleared when the first line passes its first byte", "space-before-first + ignore-invalid; first line dropped for a later byte; next line starting with SP/HTAB is lost"),
 "C15-1": ("C15", "skip_spaces also skips HTAB", "response multi-space option and a reason whose first non-space byte is HTAB"),
 "C15-2": ("C15", "request path inherits allow_obsolete_multiline_headers through a From impl", "request with a folded header value parsed with the response folding option on"),
 "C16-1": ("C16", "ParserConfig::parse_request_with_uninit_headers drops the config", "config+uninit entry point with a request-relevant non-default option and an input that needs it"),
 "C16-2": ("C16", "parse_headers returns Partial for inputs shorter than 2 bytes", "header block of exactly one byte whose real result is not Partial (\"\\n\", NUL, SP, ':')"),
 "C17-1": ("C17", "TooManyHeaders raised when an (N+1)-th line begins", "capacity equal to the number of completed lines followed by a truncated / malformed / ignorable line"),
 "C17-2": ("C17", "request uninit path assigns self.headers before checking the header parse result", "uninit request entry points with a non-Complete outcome inside the header block"),
 "C18-1": ("C18", "request keeps the headers slice short after a header-phase error (two cooperating edits)", "earlier parse failing on the (k+1)-th header line, then a probe with more than k headers"),
 "C18-2": ("C18", "response skips the version token when a version is already known", "earlier parse that got past the version, then a probe whose first 8 bytes differ"),
 "C19-1": ("C19", "target UTF-8 check through String::from_utf8_lossy under std", "request target that is not valid UTF-8"),
 "C19-2": ("C19", "unconditional extern crate alloc for the Header Debug impl", "build against core alone (no alloc in the sysroot)"),
 "C20-1": ("C20", "trim recomputed after every value line over the whole value so far", "folding on; one header with a long run of whitespace-only folded lines: quadratic, no cursor movement"),
 "C20-2": ("C20", "NUL re-check of ignored lines against a stale line start", "ignore-invalid option; long run of consecutive ignored lines: quadratic, no cursor movement"),
}

results = {}
rp = os.path.join(SEEDED, "RESULTS.txt")
if os.path.exists(rp):
    for l in open(rp):
        a = l.split()
        if len(a) >= 3 and a[2] in ("CAUGHT", "MISSED"):
            results.setdefault(a[0], {})[a[1]] = a[2]

for sid, (prop, change, needs) in sorted(T.items()):
    d = os.path.join(SEEDED, sid)
    if not os.path.isdir(d):
        continue
    r = results.get(sid, {})
    meta = {
        "id": sid, "breaks_property": prop, "change": change, "needs_to_manifest": needs,
        "origin": "independent sub-agent given only the property text and a scratch worktree of /repo at the fix commit",
        "confirmed": {
            "how": "bin/confirm_seeded in the scratch worktree",
            "ran": ["demo on the unchanged tree: passes", "git apply patch.diff; cargo test --offline: 100 + 263 + 6 pass", "demo with the change: fails"],
        },
        "checks_run": {"how": "bin/try_seeded seeded/%s/patch.diff <property>... (git -C /repo apply, bin/check <property> quick, git -C /repo checkout -- .)" % sid,
                       "caught_by": sorted(p for p, v in r.items() if v == "CAUGHT"),
                       "missed_by": sorted(p for p, v in r.items() if v == "MISSED")},
    }
    with open(os.path.join(d, "meta.json"), "w") as f:
        json.dump(meta, f, indent=1)
print("wrote", len(T), "meta files")
