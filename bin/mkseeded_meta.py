#!/usr/bin/env python3
"""Writes /verif/seeded/<id>/meta.json from the table below and the catch results in
/verif/seeded/RESULTS.txt (lines '<seeded id> <property> CAUGHT|MISSED ...')."""
import json
import os

SEEDED = os.path.join(os.path.dirname(os.path.dirname(os.path.abspath(__file__))), "seeded")
T = {
 "C01-1": ("C01", "AVX2 target scanner does one extra 32-byte load when 16..31 bytes remain (result clamped, so results are identical)", "AVX2 backend; 16..31 bytes left at the scan point; buffer ending within 16 bytes of unmapped memory"),
 "C01-2": ("C01", "chunk-size digit limit off by one in the 0-9 arm plus removal of the 'unreachable' overflow guard", "16 significant hex digits followed by a 17th decimal digit: panics on overflow in debug, wraps in release"),
 "C02-1": ("C02", "word-at-a-time value scanner breaks out when a block is rejected at lane 0 instead of re-testing the byte", "a legal HTAB in lane 0 of an 8-byte block, >= 8 bytes after it, fewer than 32 bytes left (AVX2 host): Complete flips to Err when body bytes are appended"),
 "C02-2": ("C02", "fold look-ahead at end of buffer no longer returns Partial", "obsolete folding on, header array exactly full, buffer ending right after a header's line end: Err(TooManyHeaders) that later becomes Partial/Complete"),
 "C03-1": ("C03", "ignored-line skipper reads the next byte before testing for LF", "ignore-invalid option on; a colon-less line ended by bare LF directly before the empty line: the terminator is swallowed"),
 "C03-2": ("C03", "space-before-first-header skip uses is_ascii_whitespace", "allow_space_before_first_header_name on; a whitespace-only first line: skip runs through the line end"),
 "C04-1": ("C04", "spaces-after-name branch no longer commits the slice start after the colon", "response with allow_spaces_after_header_name, SP/HTAB before the colon and no whitespace after it: value starts at the colon"),
 "C04-2": ("C04", "Bytes::new loses the buffer lifetime and parse_headers ties src to 'h instead of 'b", "client program keeping a parse_headers name/value after the buffer is freed or mutated compiles"),
 "C05-1": ("C05", "trailing trim strips SP/HTAB and CRLF pairs but never a lone LF", "folding on; folded value whose trailing continuation lines are whitespace-only and introduced by bare LF: value ends in LF"),
 "C05-2": ("C05", "bare-LF arm of the reason parser ignores the obs-text flag", "reason with a byte >= 0x80 and a status line ended by bare LF: invalid UTF-8 &str"),
 "C06-1": ("C06", "8-byte version compare only when more than 8 bytes remain", "buffer ending exactly on the 8th version byte with only that byte wrong: Partial instead of Err(Version)"),
 "C06-2": ("C06", "skip_spaces before the version is no longer guarded by the multi-space option", "default config, single SP after the method, run of SP before the version: accepted"),
 "C07-1": ("C07", "branch-less three-digit check tests only the high nibble", "one of ':;<=>?' in a code position with >= 3 bytes available: accepted as digit 10..15"),
 "C07-2": ("C07", "reason uses str::from_utf8(..).unwrap_or(\"\") instead of the obs-text flag", "reason whose high bytes form well-formed UTF-8 (a pair or longer sequence): returned verbatim"),
 "C08-1": ("C08", "HTAB-to-SP pre-pass in the word-at-a-time value scanner is exact only for the first tab of a block", "0x08 directly after an HTAB inside one 8-byte block scanned by the SWAR scanner: control byte accepted"),
 "C08-2": ("C08", "trailing trim predicate simplified to is_ascii_graphic", "value whose last non-OWS bytes are >= 0x80: they are trimmed away"),
 "C09-1": ("C09", "digit limit constant 16 admits a 17th digit", "exactly 17 digits; in debug only with a leading zero, in release any: size wraps"),
 "C09-2": ("C09", "whitespace arm guard simplified so that digits keep accumulating after whitespace", "hex digit after SP/HTAB and before ';'"),
 "C10-1": ("C10", "early exit with TooManyHeaders right after a header name when no slot is free", "array exactly full and one more line whose value is incomplete or invalid"),
 "C10-2": ("C10", "skip_empty_lines leaves a bare CR to the method/version parser", "bare CR followed by a non-LF byte among the leading empty lines: Token/Version instead of NewLine"),
 "C11-1": ("C11", "NUL on an ignored line reported only after the line ends", "ignore-invalid option; NUL on a skipped line; buffer ending before that line's LF: Partial without completion"),
 "C11-2": ("C11", "chunk-size digit-count check moved after the CRLF", ">= 17 digits and no CRLF yet: Partial instead of Err (in debug only for numerically small values)"),
 "C12-1": ("C12", "add-based range check in the word-at-a-time block functions lets a carry escape a 0xFF byte", "0xFF directly followed by 0x1F (value) / 0x20 (target) inside one 8-byte word of the SWAR scanner"),
 "C12-2": ("C12", "AVX2 scanners return the DEL position when the vector contains a DEL", "two offending bytes in one 32-byte vector, a below-range byte first and 0x7F later"),
 "C13-1": ("C13", "scalar target scanner folds four 8-byte blocks with AND before the range check", "scalar backend (forced, SIMD disabled or no_std), >= 32 bytes of target with a DEL in it"),
 "C13-2": ("C13", "chunk-size digit limit 16: release wraps where debug rejects", "exactly 17 digits, non-zero leading digit, release profile"),
 "C13-3": ("C13", "cfg on `mod avx2` simplified to not(sse42)", "compile-time +avx2 builds (which imply sse4.2) fail to compile"),
 "C14-1": ("C14", "ignored-line skipper treats 'no byte yet' after CR as a wrong byte", "ignore-invalid option; buffer cut exactly after the CR of a dropped line: Err instead of Partial"),
 "C14-2": ("C14", "space-before-first-header tied to a flag cleared when the first line passes its first byte", "space-before-first + ignore-invalid; first line dropped for a later byte; next line starting with SP/HTAB is lost"),
 "C15-1": ("C15", "skip_spaces also skips HTAB", "response multi-space option and a reason whose first non-space byte is HTAB"),
 "C15-2": ("C15", "request path inherits allow_obsolete_multiline_headers through a From impl", "request with a folded header value parsed with the response folding option on"),
 "C16-1": ("C16", "ParserConfig::parse_request_with_uninit_headers drops the config", "config+uninit entry point with a request-relevant non-default option and an input that needs it"),
 "C16-2": ("C16", "parse_headers returns Partial for inputs shorter than 2 bytes", "header block of exactly one byte whose real result is not Partial (\"\\n\", NUL, SP, ':')"),
 "C17-1": ("C17", "TooManyHeaders raised when an (N+1)-th line begins", "capacity equal to the number of completed lines followed by a truncated / malformed / ignorable line"),
 "C17-2": ("C17", "request uninit path assigns self.headers before checking the header parse result", "uninit request entry points with a non-Complete outcome inside the header block"),
 "C18-1": ("C18", "request keeps the headers slice short after a header-phase error (two cooperating edits)", "earlier parse failing on the (k+1)-th header line, then a probe with more than k headers"),
 "C18-2": ("C18", "response skips the version token when a version is already known", "earlier parse that got past the version, then a probe whose first 8 bytes differ"),
 "C19-1": ("C19", "target UTF-8 check through String::from_utf8_lossy under std", "request target that is not valid UTF-8"),
 "C19-2": ("C19", "unconditional extern crate alloc for the Header Debug impl", "build against core alone (no alloc in the sysroot)"),
 "C20-1": ("C20", "trim recomputed after every value line over the whole value so far", "folding on; one header with a long run of whitespace-only folded lines: quadratic, no cursor movement"),
 "C20-2": ("C20", "NUL re-check of ignored lines against a stale line start", "ignore-invalid option; long run of consecutive ignored lines: quadratic, no cursor movement"),
 "C01-r2-1": ("C01", "header-name tail does one aligned 8-byte load past the data when fewer than 8 bytes remain and the cursor is 8-aligned (count not clamped)", "name tail at an 8-aligned address: reads up to 7 bytes behind the buffer but never across a page; visible as a cursor overflow only when truncated inside a name with token bytes behind the buffer"),
 "C01-r2-2": ("C01", "peek_ahead dereferences the byte at `end` when n == len()", "exactly the 4 bytes POST remaining at the method: 1-byte over-read (SIGSEGV at a page end)"),
 "C02-r2-1": ("C02", "2x-unrolled 64-byte AVX2 value loop uses the lower half's HTAB mask for the upper half", "AVX2, >= 64 bytes of data at the value scan, HTAB in bytes 32..63: Complete head becomes Err once a body follows"),
 "C02-r2-2": ("C02", "chunk-size extension fast-forward loses the Partial between CR and LF", "chunk-size line with an extension split exactly after its CR: Err, then Complete"),
 "C03-r2-1": ("C03", "merged CR/LF arms of the head terminator peek for an LF without requiring the CR", "head ending in a bare-LF empty line directly followed by LF: n one too large"),
 "C03-r2-2": ("C03", "lone CR tolerated inside a chunk extension (the byte after it is already consumed)", "CR CR LF inside an extension: terminator skipped, Partial although a CRLF is present"),
 "C04-r2-1": ("C04", "POST fast path returns the literal \"POST\"", "request starting with `POST `: method slice points into static data (content identical)"),
 "C04-r2-2": ("C04", "assume_init_slice / parse_response_with_uninit_headers lose the 'headers lifetime", "client program keeping response.headers after the uninit array is gone compiles"),
 "C05-r2-1": ("C05", "ASCII fast path for the target checks whole 8-byte chunks only", "target of length >= 8 and not a multiple of 8 with ill-formed UTF-8 in its last len%8 bytes: invalid &str"),
 "C05-r2-2": ("C05", "ignored header's folded continuation lines swallowed without NUL / bare-CR checks", "ignore-invalid + folding in responses; NUL or bare CR on a SP-led line after a dropped line"),
 "C06-r2-1": ("C06", "fast paths stop using the committed start and skip_empty_lines stops committing", "leading empty line + a method other than GET/POST: method slice includes the CR/LF"),
 "C06-r2-2": ("C06", "target UTF-8 validated before the delimiter is seen", "buffer ending inside a multi-byte character of the target: Err instead of Partial"),
 "C08-r2-1": ("C08", "empty-value branch slices before the LF of a CRLF is consumed", "header with empty / whitespace-only value ended by CRLF followed by another header: next name starts with LF"),
 "C08-r2-2": ("C08", "first value byte test `b > b' '`", "DEL as the first byte of a value"),
 "C11-r2-1": ("C11", "tens and ones digits of the code range-tested together", "response buffer ending two bytes into the code, the second not a digit: Partial"),
 "C11-r2-2": ("C11", "CR/LF pairing of leading empty lines checked only once the run has ended", "buffer consisting only of leading CR/LF bytes with CR CR: Partial"),
 "C12-r2-1": ("C12", "all-letters SWAR fast path in the header-name scanner tests lanes 1..7 for <= 26", "'[' or '{' in lanes 1..7 of an 8-byte block whose other bytes are letters"),
 "C12-r2-2": ("C12", "NEON name bitmap range `*..=.` includes ','", "',' inside a full 16-byte NEON block (aarch64 only; here through the intrinsic emulation)"),
 "C13-r2-1": ("C13", "runtime detection asks for avx instead of avx2 but still caches AVX2", "CPU with AVX and SSE4.2 but no AVX2: AVX2 backend entered"),
 "C13-r2-2": ("C13", "SSE4.2 value scanner jumps to the next 32-byte boundary after validating 16 bytes", "SSE4.2 backend, scan position with p%32 < 16, >= 32 bytes left: result depends on buffer alignment"),
 "C14-r2-1": ("C14", "spaces-after-name loop hands a stale byte to the ignored-line skipper", "spaces-after-name + ignore-invalid; exactly one blank after the name followed by NUL / bare CR / LF"),
 "C14-r2-2": ("C14", "ignored-line skipper also drops the following SP/HTAB-led lines when folding is on", "folding + ignore-invalid (+ space-before-first): kept header lost, or error kind changed"),
 "C16-r2-1": ("C16", "Response::parse_with_config resets the whole value on Err", "input that errors after part of the status line was parsed: fields differ between init and uninit entry points"),
 "C16-r2-2": ("C16", "Response::parse clears version/code/reason before delegating", "re-used Response that already carries fields and a call that stops early: entry points disagree"),
 "C17-r2-1": ("C17", "slot taken before the fold look-ahead", "folding + ignore-invalid; folded header whose continuation is invalid: unwritten slot exposed, later headers one slot too far"),
 "C17-r2-2": ("C17", "empty-value store path continues when the array is full", "array exactly full and a surplus header line with an empty value: Complete with a dropped header"),
 "C18-r2-1": ("C18", "reason assigned only if none is set when the status line has no reason", "earlier call that got past a non-empty reason, then a probe whose status line ends after the code"),
 "C18-r2-2": ("C18", "value length reused from the old slot when name and value start at the same addresses", "same bytes at the same address parsed earlier under a config that ends the value elsewhere"),
 "C20-r2-1": ("C20", "each chunk-extension byte searches ahead for the next CR", "Partial input `1;` + N non-CR bytes: quadratic through as_ref, no cursor movement"),
 "C20-r2-2": ("C20", "header-name scanner falls through to a tail matcher that always walks its whole argument", "many small headers in one buffer: quadratic"),
 "C01-r3-1": ("C01", "empty-value exit uses slice_skip(2) also on the bare-LF path", "header with empty / blank value on a line ended by bare LF: underflow (debug assertion; release: value of length 2^64-1)"),
 "C01-r3-2": ("C01", "parse_code reads the first code byte unchecked", "response buffer ending exactly after `HTTP/1.1 ` with the multi-space option off: reads buf[len]"),
 "C02-r3-1": ("C02", "fail-fast TooManyHeaders when the array is full and the next byte could start a name, end of input included", "capacity equal to the header count, buffer cut right after the last header line: Err(TooManyHeaders), later Complete"),
 "C02-r3-2": ("C02", "skip_empty_lines looks one byte ahead for the LF", "buffer ending between the CR and LF of a leading empty line: Err(NewLine), later Complete"),
 "C07-r3-1": ("C07", "SP after the version becomes optional under the multi-space option", "`HTTP/1.1200 OK` with allow_multiple_spaces_in_response_status_delimiters"),
 "C07-r3-2": ("C07", "merged CR/LF arms after the code treat end of input as a wrong byte", "status line without reason, buffer ending between CR and LF: Err(Status) instead of Partial"),
 "C08-r3-1": ("C08", "hand-written tchar bitmap in the SWAR name scanner lacks `|`", "`|` at name offset >= 1 inside a full 8-byte block"),
 "C08-r3-2": ("C08", "newline! no longer commits on its bare-LF arm", "Request with a request line ended by bare LF and at least one header: first name includes `HTTP/1.1\\n`"),
 "C09-r3-1": ("C09", "merged digit arms with an exclusive upper-case range", "upper-case `F`: valued 22"),
 "C09-r3-2": ("C09", "is_ascii_whitespace in the whitespace arm", "LF or FF after a genuine SP/HTAB and before `;`"),
 "C10-r3-1": ("C10", "lone CR inside the ignored-line skipper always reported as HeaderName", "ignore-invalid; line first wrong in its value; later CR without LF"),
 "C10-r3-2": ("C10", "short-input version path reports NewLine for CR/LF inside the literal", "CR or LF as the first wrong byte of the version with fewer than 8 bytes left"),
 "C11-r3-1": ("C11", "whitespace after a header name only rejected at the colon", "buffer ending inside the whitespace run after a name (option off): Partial"),
 "C11-r3-2": ("C11", "method parsing returns Partial until four bytes are buffered", "invalid byte within the first 1-3 bytes of the request line"),
 "C12-r3-1": ("C12", "SWAR target check returns the first below-range lane before consulting the DEL mask", "DEL followed by a byte below 0x21 inside one 8-byte word"),
 "C12-r3-2": ("C12", "AVX2 DEL splat with 16-bit lanes", "DEL at an odd lane of a 32-byte block of the target"),
 "C13-r3-1": ("C13", "build.rs scans the target-feature list with one shared iterator", "`+avx2` builds silently select the compile-time SSE4.2 backend"),
 "C13-r3-2": ("C13", "minor version digit computed by u8 subtraction in the 8-byte fast path", "`HTTP/1.` followed by a byte below `0`: panic in debug, Err(Version) in release"),
 "C15-r3-1": ("C15", "trailing trim uses char::is_whitespace when folding is on", "folding option; value ending in 0xA0 or 0x85"),
 "C15-r3-2": ("C15", "precedence slip lets ignore_invalid_headers_in_requests reach responses", "request-only ignore flag on, response with an ignorable invalid line"),
 "C17-r3-1": ("C17", "slot iterator bounded by bytes.len()/4+1", ">= 6 three-byte header lines (`a:` + LF) with capacity >= 6: TooManyHeaders"),
 "C17-r3-2": ("C17", "response uninit entry takes `headers` and only puts it back after the header block", "non-empty headers before the call and a Partial/Err in the status line"),
 "C18-r3-1": ("C18", "method reused when the input starts with it and the next byte is not a token byte", "earlier parse with method M, probe `M/x ...`"),
 "C18-r3-2": ("C18", "request line prefix skipped when method/path point into the current buffer", "same memory parsed earlier under another config or as an overlapping sub-slice"),
 "C19-r3-1": ("C19", "runtime detection reads an environment variable (owned OsString)", "variable present in the environment and the first dispatched scanner call of the process"),
 "C19-r3-2": ("C19", "std::arch path behind cfg(target_feature = bmi1) in swar.rs", "no_std build with a target-feature set containing bmi1 (e.g. target-cpu x86-64-v3)"),
 "C20-r3-1": ("C20", "target re-validated from its start at every multi-byte character", "long target with many multi-byte characters"),
 "C20-r3-2": ("C20", "reason look-ahead repeated at every obs-text byte when the line is not terminated", "unterminated or NUL-ended status line with many obs-text bytes"),
}

results = {}
rp = os.path.join(SEEDED, "RESULTS.txt")
if os.path.exists(rp):
    for l in open(rp):
        a = l.split()
        if len(a) >= 3 and a[2] in ("CAUGHT", "MISSED"):
            results.setdefault(a[0], {})[a[1]] = a[2]

for sid, (prop, change, needs) in sorted(T.items()):
    d = os.path.join(SEEDED, sid)
    if not os.path.isdir(d):
        continue
    r = results.get(sid, {})
    meta = {
        "id": sid, "breaks_property": prop, "change": change, "needs_to_manifest": needs,
        "origin": "independent sub-agent given only the property text and a scratch worktree of /repo at the fix commit",
        "confirmed": {
            "how": "bin/confirm_seeded in the scratch worktree",
            "ran": ["demo on the unchanged tree: passes", "git apply patch.diff; cargo test --offline: 100 + 263 + 6 pass", "demo with the change: fails"],
        },
        "checks_run": {"how": "bin/try_seeded seeded/%s/patch.diff <property>... (git -C /repo apply, bin/check <property> quick, git -C /repo checkout -- .)" % sid,
                       "caught_by": sorted(p for p, v in r.items() if v == "CAUGHT"),
                       "missed_by": sorted(p for p, v in r.items() if v == "MISSED")},
    }
    with open(os.path.join(d, "meta.json"), "w") as f:
        json.dump(meta, f, indent=1)
print("wrote", len(T), "meta files")
