#!/usr/bin/env python3
"""Regenerates /verif/MANIFEST.json (kept in git; run after changing the set of checks)."""
import json
import os
import subprocess

VERIF = os.path.dirname(os.path.dirname(os.path.abspath(__file__)))
hooks = subprocess.run(["git", "-C", "/repo", "log", "--format=%h %s"], capture_output=True, text=True).stdout.splitlines()
hook_commits = [l.split()[0] for l in hooks if l.split(" ", 1)[1].startswith("verif hook")][::-1]

P = {
 "C01": ("stateless exploration of the real parser over symbol trees, positional sweeps, scanner grids and size families, with guard pages, hostile in-class surroundings, armed debug assertions, catch_unwind, crash journal and watchdog, in three profiles (debug assertions + overflow checks; overflow checks only; release); long fields, page-straddling placements, token and header-line sweeps; valgrind memcheck as a byte-granular bounds monitor on an enumerated corpus of exact-size heap buffers; stack-depth leg (size families on a 256 KiB thread stack in the unoptimised build); Miri-interpreted runs for i686 / s390x (mips) as an out-of-bounds monitor",
         "Every enumerated input (all strings over class alphabets to a depth after resume contexts, all 256 byte values at every template position and lane phase, scanner grids, adversarial sizes to 64 KiB quick / 1 MiB thorough) is run through every entry point with the buffer flush against PROT_NONE pages, in a debug-assertion build and a release build, for every header-option set and capacities 0/1/2/16. A crash, hang, panic or out-of-range result is recovered from the journal and replayed.",
         "Trusted: the guard-page arena and journal of the harness; reads that stay inside the buffer are C12/C04's business; NEON only through emulation; sizes between the explored ones by the single-pass structure."),
 "C02": ("parent/child relation on every edge of the symbol trees and every split point of every template mutant; chains of cuts around the 128/256-byte marks of long fields; stateright graph of all delivery histories",
         "For every explored buffer B and every explored extension B·s (and every prefix of every single-byte mutant of the templates) the relation of the statement is checked on the real parser; all chunkings of 7 streams are paths of a stateright-explored snapshot graph replayed on one real value.",
         "Relational, model-free oracle. Bounded depth / template set; splits inside multi-byte symbols are covered by the template prefixes."),
 "C03": ("exhaustive symbol trees and template mutants; offset compared with the reference transducer and with an independent linear scan for the first empty line; long fields, page-boundary sweeps, size families with all four spellings of the final line ends, chunk-extension language; framing compared with the native run on interpreted i686 / s390x (mips)",
         "n is compared with two independent oracles on every explored Complete node, and every Partial node is scanned for an already-present empty line, under all header-option sets, capacities and entry kinds.",
         "The linear scan is weakened (blank-line + not-after-first-empty-line) only where folding and space-before-first are both enabled, see DESIGN.md 12."),
 "C04": ("pointer-range oracle on every node of the trees, sweeps and size families; token dictionaries (fast paths returning literals); exhaustive compile of a generated corpus of 167 client programs (public and doc-hidden API) with rustc as the judge",
         "Every slice reachable from the value or the array after every explored call is checked against the buffer range, buf[..n], and the input order; the static half is decided on a finite corpus of escaping / legitimate programs compiled against the rlib built from /repo.",
         "The program corpus is finite: not a proof over all safe programs."),
 "C05": ("class predicates from the statement on every field of every explored result; all 256 byte values at every template position and every lane phase L<=70/100, per backend; long fields to 300 (520) with rotating page placements; token grids; hygiene evaluated on interpreted i686 / s390x (mips) results",
         "Model-free predicates (tchar, target, value, reason classes, from_utf8, OWS trimming, CR/LF/NUL in buf[..n], code digits) on every explored node under all header-option sets and the three runtime backends.",
         "Bounded exhaustive; fields longer than 100 bytes only in the size families."),
 "C06": ("product of the request-line symbol tree with the reference transducer; every trace replayed on the implementation; lane-phase and version-literal sweeps; long targets/methods, page-boundary sweeps, method x target length grid, 30 methods x 10 targets x 12 protocol tokens with per-byte mutants; equality with the native run on interpreted i686 / s390x (mips)",
         "Status class, offset, method/path ranges and version compared with an independent byte-at-a-time transducer on every string over a 19-symbol alphabet to depth 5 (7 thorough) after 17 contexts, both multi-space settings, plus all 256 values at every position of target/method/version.",
         "The transducer is the trusted oracle (written from the statement; its abstract graph is checked for absorbing terminals and completions)."),
 "C07": ("product of the status-line symbol tree with the reference transducer; all 1000 codes; reason lane-phase sweep; long reasons, space runs to 300, 44 registered status lines under 12 protocol tokens with per-byte mutants; equality with the native run on interpreted i686 / s390x (mips)",
         "As C06 for responses: 19-symbol alphabet, 15 contexts, both multi-space settings; all codes and 12^3 boundary strings in the code position; reason of every length 0..70/100 with every byte value at every position.",
         "The transducer is the trusted oracle."),
 "C08": ("product of the header-block symbol tree (default options, three entry kinds, resume contexts) with the reference transducer; name/value lane-phase sweeps; template mutants; long names/values with distant byte pairs and page placements; name x value length grid; real header names and values in pairs and in 10 shapes; header-line strings; equality with the native run on interpreted i686 / s390x (mips)",
         "Exact lines in, exact (name, value) ranges out, on every string over an 11-symbol alphabet to depth 8 (10 thorough) with the run symbol stretched to 1/9/17/33 bytes, under three backends.",
         "The transducer is the trusted oracle; random grammar-derived blocks of the quantifier text are replaced by exhaustive trees and sweeps."),
 "C09": ("full enumeration of a 14-symbol alphabet to length 6 (7) after 0/14/15/16/17 digits against a u128 reference; digit-count and extension sweeps (hex digits and quoted strings inside extensions, lines followed by chunk data, extension language over 8 symbols to length 6); three profiles; digests across release and debug-assertion builds; equality with the native run on interpreted i686 (32-bit) / s390x",
         "Every string of the class alphabet is parsed and compared (status, offset, exact value) with the reference; the same corpus gives identical digests in release and dev profiles of every build variant.",
         "Repaired defect (zero-digit lines) recorded as fixed in known_findings.json."),
 "C10": ("error kind of every rejected node of the trees and template mutants compared with the reference transducer's classification of the first offending byte; long fields in front of an invalid next line; header counts to 513; header-line strings under all 40 option sets",
         "All Err nodes under all header-option sets and capacities 0..2 (TooManyHeaders precedence).",
         "The transducer's classification is the reading of the statement."),
 "C11": ("EF Complete on the reference model's abstract graph; at every implementation-Partial node the model's completion suffix is executed on the implementation; a Partial on bytes the reference grammar has already rejected is a violation outright; long fields along chains of cuts",
         "Existential quantifier discharged constructively: for every explored Partial node the suffix sigma(q) of its model state is appended and must give Complete; where the model is already terminal the whole finite completion set is tried.",
         "Exceptions exactly as stated (undecodable target, header capacity) are counted as exempt in the evidence."),
 "C12": ("scanner grids: 5 backends x 3 classes x length 0..100 x position x 256 values x fillers x placements (guard-flush, 32 alignments, in-class surroundings, page-straddling), long grid to 300 (520), pairs of offending positions, non-fresh cursors, boundary alphabet ^8; NEON source compiled against an intrinsic emulation; the word-at-a-time scanners interpreted by Miri for i686 / s390x (mips) against a class oracle",
         "Stop position of every scanner equals the first out-of-class byte per the classes written in the statement, buffers flush against guard pages and at every start alignment.",
         "NEON runs through a 13-intrinsic emulation (trusted); hardware behaviour of real NEON is out of reach on this host."),
 "C13": ("38-point build lattice in two profiles (feature switches and whole target CPUs), i686 x target-feature sets and aarch64 type-checked; per-partition digests of one enumerated corpus across 8 (15) build variants / forced backends / profiles, each variant checked to have selected its documented backend; in-process forced-backend agreement and alignment agreement under each backend; loom over the real runtime.rs on four simulated CPUs; full-result equality with the native run on interpreted i686 / s390x (mips)",
         "Configurations enumerated completely; results compared on an enumerated corpus; every interleaving (unbounded preemptions) of 2-4 threads' first calls through the backend cache explored on CPUs with avx2, sse4.2 only, neither.",
         "loom's C11 model; scanner stubs under loom; cold-start races of free-running processes are not used (sampling)."),
 "C14": ("product of the header-block symbol tree under all 16 response and 4 request option sets with the parameterised reference transducer; all 128 configurations on both message kinds at depth 4 (5); dropped-line fields; header-line strings under all 40 option sets; real header names in 10 shapes; option templates under every option subset",
         "Exact widening per option and their interactions on every string to depth 6 (8), with stretched runs under three backends.",
         "The transducer is the trusted oracle for what 'exactly as documented' means."),
 "C15": ("metamorphic relation on every default-Complete node x 128 configs, and on every node x own-kind config x every other-kind option subset, at capacities 0, 1, 2 (4); default-accepted whitespace runs to 300, SP^n before every first reason byte, long fields — under all 128 configs",
         "Model-free equality of full results (sole exception: reason with leading spaces stripped under the response multi-space option).",
         "Bounded depth; template mutants add real-looking messages."),
 "C16": ("pairwise equality of all entry points of a kind on every node of the trees and template mutants; parse_headers in lock-step with request and response heads (CRLF and LF start lines); header counts to 513 and size families to 70 KB on every entry point; stateright histories: initialised-array and uninit entry points agree on re-used values (every error kind occurs in the histories)",
         "4 request and 4 response entry points x configs x capacities 0/1/3; parse_headers(w) against heads ending in w with shifted offsets.",
         "Model-free."),
 "C17": ("sentinel/poison prefilled arrays inspected as raw words after every call; capacities 0..4(7) against capacity 16 on every node; header-count sweep 0..24 (72) and 99..513 lines against capacities around the count; size families to 256 KiB (87 k headers) incl. unterminated ones; stateright histories for the restore invariant",
         "Count, ranges, untouched slots, restore after Partial/Err, no exposed uninitialised slot, TooManyHeaders exactly when the model completes header N+1.",
         "Header layout assumed to be 4 words (checked at compile time)."),
 "C18": ("stateright exploration of all histories of <=3 (4) earlier calls from 60 (80) operations per message kind (and 13 parse_headers operations on one re-used array), capacities 0..3, on the real parser; canonicalised by snapshot and cross-checked un-canonicalised",
         "Every reachable snapshot x every probe: probe on the reused value equals the probe on a fresh value of the current headers length, and of the original array while no call has returned Complete.",
         "Snapshot = everything a later call can read (argued in DESIGN.md S4)."),
 "C19": ("allocator-call delta around every call on every explored node, repeated with every environment variable the sources read set; no_std lattice points incl. whole target CPUs; release-profile lattice points; -Zbuild-std=core builds for x86_64-none, i686, aarch64-none, riscv32",
         "Counting global allocator, per-thread counter; all outcomes and entry points; build legs enumerate the feature sets.",
         "Allocation inside the kernel/libc is invisible; none is expected."),
 "C20": ("cursor-operation counters on every explored node and on 89 size families (incl. all-option twins, colon-less, mixed line ends, unterminated) to 256 KiB (1 MiB); doubling test; instructions inside the parse call (callgrind toggle-collect) at three sizes for complete, unterminated and erroneous inputs",
         "One cursor per call, forward only, travel <= len, operations <= 16 len + 128; increments between N/2N/4N at most 2.2x (cursor ops) and 2.5x (instructions inside the parse call).",
         "Thresholds separate linear from quadratic growth; they are not tight constants."),
}

checks = []
for pid in sorted(P):
    tech, text, note = P[pid]
    checks.append({
        "property_id": pid,
        "quick_cmd": "bin/check %s quick" % pid,
        "thorough_cmd": "bin/check %s thorough" % pid,
        "evidence_file": "/verif/evidence/%s.json" % pid,
        "replay_cmd_template": "bin/check --replay {path}",
        "engine": "explore" if pid not in ("C18",) else "histories",
        "level_claimed": {"category": "model_checking", "text": text, "design_ref": "DESIGN.md section 4 (%s)" % pid},
        "level_note": note,
        "technique": tech,
    })

m = {
    "version": 1,
    "setup_cmd": "bin/setup",
    "hooks": {
        "guard": "cfg(httparse_verif)",
        "enable": "RUSTFLAGS=\"--cfg httparse_verif\" (set in /verif/harness/.cargo/config.toml; variant builds pass it explicitly next to their -C target-feature flags)",
        "baseline_off_cmd": "cd /repo && cargo test --workspace --no-fail-fast --offline",
        "source_commits": hook_commits,
        "add_only": True,
    },
    "engines": [
        {"name": "explore", "path": "harness/explore", "serves_properties": ["C01", "C02", "C03", "C04", "C05", "C06", "C07", "C08", "C09", "C10", "C11", "C12", "C13", "C14", "C15", "C16", "C17", "C19", "C20"], "kind_free_text": "stateless explorer of the real parser over enumerated input spaces (symbol trees in product with the reference transducer, positional sweeps, scanner grids, size families) with guard pages, crash journal, watchdog, counting allocator and cursor counters"},
        {"name": "refmodel", "path": "harness/refmodel", "serves_properties": ["C03", "C06", "C07", "C08", "C09", "C10", "C11", "C14", "C17"], "kind_free_text": "byte-at-a-time reference transducers with exhaustive abstract-graph search"},
        {"name": "histories", "path": "harness/histories", "serves_properties": ["C18", "C17", "C02"], "kind_free_text": "stateright models over operation histories and delivery histories on the real parser"},
        {"name": "rtloom", "path": "harness/rtloom", "serves_properties": ["C13"], "kind_free_text": "loom exploration of the textually included src/simd/runtime.rs on simulated CPUs"},
        {"name": "digest", "path": "harness/digest", "serves_properties": ["C13", "C09", "C20"], "kind_free_text": "one enumerated corpus digested under every build variant; instruction-count workload"},
        {"name": "lifetimes", "path": "bin/lifetimes.py", "serves_properties": ["C04"], "kind_free_text": "generated client-program corpus judged by rustc"},
    ],
    "checks": checks,
    "not_applicable": [],
    "notes": "All 20 properties are claimed with bounded exhaustive enumeration as the deciding step; bounds, residuals and the one repaired defect are in DESIGN.md and known_findings.json.",
}
with open(os.path.join(VERIF, "MANIFEST.json"), "w") as f:
    json.dump(m, f, indent=1)
print("wrote MANIFEST.json with", len(checks), "checks; hook commits", hook_commits)
